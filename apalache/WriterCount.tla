---------------------------- MODULE WriterCount ----------------------------
(* Counting abstraction of the container writer (AvroWriter), for an         *)
(* UNBOUNDED argument with Apalache: the number of records submitted always  *)
(* equals the number in blocks on the stream plus the number pending, and     *)
(* after a flush nothing is pending.  IndInv is inductive:                    *)
(*   apalache-mc check --init=IndInit --inv=IndInv --length=1   (step)        *)
(*   apalache-mc check --init=Init    --inv=IndInv --length=0   (base)        *)
(* and implies ReadBackCount.                                                 *)
EXTENDS Integers

VARIABLES
  \* @type: Int;
  nSub,
  \* @type: Int;
  nFile,
  \* @type: Int;
  nPend,
  \* @type: Bool;
  flushed

Init == nSub = 0 /\ nFile = 0 /\ nPend = 0 /\ flushed = FALSE

\* a write either joins the pending block or closes it (any blocking policy)
Write == /\ nSub' = nSub + 1 /\ flushed' = FALSE
         /\ \/ nPend' = nPend + 1 /\ nFile' = nFile
            \/ nPend' = 0 /\ nFile' = nFile + nPend + 1
WriteFail == UNCHANGED << nSub, nFile, nPend, flushed >>
Flush == nFile' = nFile + nPend /\ nPend' = 0 /\ nSub' = nSub /\ flushed' = TRUE
WriteBlock == \E k \in 0..1000000 : /\ nFile' = nFile + nPend + k /\ nPend' = 0 /\ nSub' = nSub + k /\ flushed' = FALSE
Next == Write \/ WriteFail \/ Flush \/ WriteBlock

TypeOK == nSub >= 0 /\ nFile >= 0 /\ nPend >= 0
IndInv == TypeOK /\ nSub = nFile + nPend /\ (flushed => nPend = 0)
IndInit == nSub \in Int /\ nFile \in Int /\ nPend \in Int /\ flushed \in BOOLEAN /\ IndInv
ReadBackCount == flushed => nFile = nSub
=============================================================================
