------------------------------- MODULE MC_Rabin -------------------------------
(* M for C14: the table-driven fingerprint step equals eight bit-serial steps.  *)
(* The step is linear over GF(2) in (state, byte), so checking every byte value *)
(* on the zero state and on the 64 basis states decides it for all states.      *)
EXTENDS Naturals, Sequences, TLC, Rabin

Basis(i) == [k \in 1..8 |-> IF k = ((i - 1) \div 8) + 1 THEN 2 ^ ((i - 1) % 8) ELSE 0]
States == { ZERO64, EMPTY64 } \cup { Mat(Basis(i)) : i \in 1..64 }

VARIABLES rstate, rbyte
Init == rstate \in States /\ rbyte \in 0..255
Next == UNCHANGED << rstate, rbyte >>

InvStep == FPStep(rstate, rbyte) = FPStepSerial(rstate, rbyte)
InvSeed == FP(<<>>) = EMPTY64 /\ Hex64LE(EMPTY64) = Cps("95a7d7a43a215dc1")
\* linearity itself, on the samples: step(x xor y, 0) = step(x, 0) xor step(y, 0)
InvLinear == FPStep(Xor64(rstate, EMPTY64), 0) = Xor64(FPStep(rstate, 0), FPStep(EMPTY64, 0))
=============================================================================
