------------------------------ MODULE MC_Writer ------------------------------
(* M: every history of the container writer up to MaxOps operations, with the  *)
(* bytes it leaves on the stream (C07, C04, C06).  The abstract writer         *)
(* (AvroWriter: any blocking policy) and, as a refinement, fastavro's policy   *)
(* (dump when the pending bytes reach the interval; flush dumps when there are *)
(* bytes or records) are explored together: Policy = "any" | "fastavro".       *)
(* The file is kept at byte level and read back by AvroFile's parser, at every *)
(* cut offset and with every sync byte altered.                                *)
EXTENDS Naturals, Integers, Sequences, SequencesExt, FiniteSets, TLC, AvroWriter, AvroFile

CONSTANTS MaxOps, Policy, Interval

Sync == << 1, 2, 3, 4, 5, 6, 7, 8, 9, 10, 11, 12, 13, 14, 15, 16 >>
Header == Magic \o <<0>> \o Sync                    \* magic, empty metadata map, sync marker
LongT == [k |-> "long", lt |-> NoLt]
NullableT == [k |-> "union", br |-> << [k |-> "null", lt |-> NoLt], LongT >>]      \* records may be zero... one-byte 'null' or longer
R(n) == VInt(IFromInt(n))
\* record values: None (1 byte under the union), a small and a large long
Recs == { VNone, R(1), R(0 - 300) }
EncRec(r) == Encode(NullableT, r, EmptyFn, Opts0).b
Payload(rs) == Concat(MapSeq(EncRec, rs))
BlockBytes(rs) == VarintNat(Len(rs)) \o VarintNat(Len(Payload(rs))) \o Payload(rs) \o Sync
Donors == { << R(1) >>, << VNone, R(0 - 300) >>, <<>> }

VARIABLES wst, wfile, wops
vars == << wst, wfile, wops >>

FileOf(blocks) == Header \o Concat(MapSeq(BlockBytes, blocks))
PendingBytes(st) == Len(Payload(st.pending))

Init == wst = WInit /\ wfile = Header /\ wops = 0

\* successor states allowed by the policy
WriteSucc(st, r) ==
  LET keep == [st EXCEPT !.pending = Append(@, r), !.submitted = Append(@, r), !.flushed = FALSE]
      dump == [st EXCEPT !.blocks = Append(@, Append(st.pending, r)), !.pending = <<>>, !.submitted = Append(@, r), !.flushed = FALSE]
  IN IF Policy = "any" THEN { keep, dump }
     ELSE IF Len(Payload(Append(st.pending, r))) >= Interval THEN { dump } ELSE { keep }
FlushSucc(st) == [st EXCEPT !.blocks = Dumped(st), !.pending = <<>>, !.flushed = TRUE]
WBlockSucc(st, rs) == [st EXCEPT !.blocks = Append(Dumped(st), rs), !.pending = <<>>, !.submitted = @ \o rs, !.flushed = FALSE]

DoWrite == \E r \in Recs : \E s2 \in WriteSucc(wst, r) : wst' = s2 /\ Write(wst, s2, r)
DoWriteFail == wst' = wst /\ WriteFail(wst, wst)
DoFlush == wst' = FlushSucc(wst) /\ Flush(wst, wst')
DoWBlock == \E rs \in Donors : wst' = WBlockSucc(wst, rs) /\ WriteBlock(wst, wst', rs)
DoReopen == wst.pending = <<>> /\ wst' = wst /\ Reopen(wst, wst)

Next == /\ wops < MaxOps
        /\ wops' = wops + 1
        /\ (DoWrite \/ DoWriteFail \/ DoFlush \/ DoWBlock \/ DoReopen)
        /\ wfile' = FileOf(wst'.blocks)
Spec == Init /\ [][Next]_vars

\* ---- reading the stream back -------------------------------------------------------------
\* records of the complete blocks of byte string F, and how reading ends: "normal" | "raise"
ReadBytes(F) ==
  LET h == ParseHeader(F) IN
  IF ~h.ok THEN [recs |-> <<>>, end |-> "raise"]
  ELSE LET bl == ParseBlocks(F, h.hend, h.sync, <<>>)
           dec == MapSeq(LAMBDA b : DecItems(NullableT, b.count, b.payload, 1, EmptyFn, <<>>), bl.blocks)
       IN [recs |-> FoldLeft(LAMBDA acc, d : acc \o d.v, <<>>, dec), end |-> IF bl.ok THEN "normal" ELSE "raise"]
Boundaries0(F) == LET h == ParseHeader(F) bl == ParseBlocks(F, h.hend, h.sync, <<>>) IN
                  { h.hend - 1 } \cup { bl.blocks[i].off + bl.blocks[i].size : i \in 1..Len(bl.blocks) }
IsPrefixV(a, b) == Len(a) <= Len(b) /\ \A i \in 1..Len(a) : VEq(a[i], b[i])

\* ---- properties ---------------------------------------------------------------------------
InvReadBack == ReadBack(wst)                                                   \* C07
InvDurable == Durable(wst)
InvFile == LET r == ReadBytes(wfile) IN r.end = "normal" /\ SeqEq(r.recs, Flat(wst.blocks))      \* C04/C05: the stream is always a valid wfile
InvFlushed == wst.flushed => SeqEq(ReadBytes(wfile).recs, wst.submitted)          \* C07 at byte level
InvCutSafe == \A k \in 0..Len(wfile) :                                        \* C06: every truncation
                LET r == ReadBytes(SubSeq(wfile, 1, k)) IN
                /\ IsPrefixV(r.recs, wst.submitted)
                /\ (r.end = "normal" <=> k \in Boundaries0(wfile))
InvSyncSafe == \A k \in (Len(Header) + 1)..Len(wfile) :                       \* C06: every altered byte of every block'wst trailing marker
                 LET F2 == [wfile EXCEPT ![k] = (wfile[k] + 1) % 256]
                     inSync == \E b \in Boundaries0(wfile) : k > b - 16 /\ k <= b /\ b > Len(Header)
                 IN inSync => LET r == ReadBytes(F2) IN r.end = "raise" /\ IsPrefixV(r.recs, wst.submitted)
=============================================================================
