------------------------------ MODULE MC_Logical ------------------------------
(* M for C16: the civil calendar over a range of days: DaysFromCivil and        *)
(* CivilFromDays are inverse, dates advance by exactly one day, months have the *)
(* right lengths; two's complement encode/decode are inverse on small values.   *)
EXTENDS Naturals, Integers, Sequences, TLC, AvroLogical

CONSTANTS FromOff, ToOff        \* offsets from 0001-01-01 (configuration files cannot hold negative numbers)
FromDay == MinDay + FromOff
ToDay == MinDay + ToOff
VARIABLE dayv
Init == dayv \in FromDay..ToDay
Next == UNCHANGED dayv

c == CivilFromDays(dayv)
InvInverse == DaysFromCivil(c.y, c.mo, c.d) = dayv
InvValid == c.mo \in 1..12 /\ c.d \in 1..DaysInMonth(c.y, c.mo) /\ c.y \in 1..9999
InvSuccessor == dayv < ToDay => LET n == CivilFromDays(dayv + 1) IN
                  IF c.d < DaysInMonth(c.y, c.mo) THEN n = [y |-> c.y, mo |-> c.mo, d |-> c.d + 1]
                  ELSE IF c.mo < 12 THEN n = [y |-> c.y, mo |-> c.mo + 1, d |-> 1]
                  ELSE n = [y |-> c.y + 1, mo |-> 1, d |-> 1]
InvTwos == LET x == IFromInt(dayv) IN FromTwosBE(TwosBE(x, MinTwosLen(x))) = x /\ FromTwosBE(TwosBE(x, 4)) = x
InvEpoch == DaysFromCivil(1970, 1, 1) = 0 /\ MinDay = 0 - 719162 /\ MaxDay = 2932896
=============================================================================
