------------------------------ MODULE MC_Threads ------------------------------
(* M for C18: two threads reading decimals of different precision, every        *)
(* interleaving.  Shared = TRUE models the implementation as it was (one        *)
(* module-level context: prec := p; use prec); Shared = FALSE the repaired one  *)
(* (a context per call).  Serializable must hold for Shared = FALSE and TLC     *)
(* finds the counterexample schedule for Shared = TRUE (replayed on the code    *)
(* by the deterministic scheduler of harness/p_threads.py).                     *)
EXTENDS Naturals, Sequences, TLC

CONSTANT Shared
Threads == {1, 2}
Prec == [t \in Threads |-> IF t = 1 THEN 5 ELSE 20]

VARIABLES pc, ctx, own, result
vars == << pc, ctx, own, result >>

Init == pc = [t \in Threads |-> "set"] /\ ctx = 28 /\ own = [t \in Threads |-> 0] /\ result = [t \in Threads |-> 0]

Set(t) == /\ pc[t] = "set"
          /\ IF Shared THEN ctx' = Prec[t] /\ UNCHANGED own ELSE own' = [own EXCEPT ![t] = Prec[t]] /\ UNCHANGED ctx
          /\ pc' = [pc EXCEPT ![t] = "use"] /\ UNCHANGED result
Use(t) == /\ pc[t] = "use"
          /\ result' = [result EXCEPT ![t] = IF Shared THEN ctx ELSE own[t]]      \* the precision the value is rounded with
          /\ pc' = [pc EXCEPT ![t] = "done"] /\ UNCHANGED << ctx, own >>
Next == \E t \in Threads : Set(t) \/ Use(t)
Spec == Init /\ [][Next]_vars

Serializable == (\A t \in Threads : pc[t] = "done") => \A t \in Threads : result[t] = Prec[t]
=============================================================================
