------------------------------ MODULE MC_Binary ------------------------------
(* M + G for C01, C02, C03: a bounded universe of (schema, value) pairs        *)
(* enumerated by TLC.  On every pair the spec's own properties are checked     *)
(* (round trip, exact consumption, canonical match, self-delimitation,         *)
(* block-partition invariance, concatenation) and the pair is printed with the *)
(* spec's encoding and expected value so that the harness can replay it into   *)
(* the implementation (G direction).                                           *)
EXTENDS Naturals, Integers, Sequences, SequencesExt, FiniteSets, TLC, Json, AvroLayout, AvroResolve

CONSTANT Depth          \* 0: leaves only; 1: one level of array/map/union/record over leaves

P(k) == [k |-> k, lt |-> NoLt]
FixedT == [k |-> "fixed", name |-> Cps("F"), aliases |-> <<>>, size |-> 2, lt |-> NoLt]
EnumT == [k |-> "enum", name |-> Cps("E"), aliases |-> <<>>, syms |-> << Cps("A"), Cps("B") >>, hasdef |-> FALSE, def |-> <<>>]
Leaves == { P("null"), P("boolean"), P("int"), P("long"), P("float"), P("double"), P("bytes"), P("string"), FixedT, EnumT }

Fld(n, t) == [name |-> Cps(n), type |-> t, hasdef |-> FALSE, def |-> JNull, aliases |-> <<>>]
RecT(fs) == [k |-> "record", name |-> Cps("R"), aliases |-> <<>>, fields |-> fs]
Level1 == { [k |-> "array", items |-> t] : t \in Leaves } \cup { [k |-> "map", values |-> t] : t \in Leaves }
          \cup { [k |-> "union", br |-> << a, b >>] : a \in { P("null"), P("int"), P("string") }, b \in { P("long"), P("double"), EnumT, P("bytes") } }
          \cup { [k |-> "union", br |-> << P("float"), P("null"), P("double") >>] }
          \cup { RecT(<< Fld("a", a), Fld("b", b) >>) : a \in { P("int"), P("string"), P("null") }, b \in { P("boolean"), P("double"), FixedT } }
          \cup { RecT(<<>>) }
\* depth 2: one more level over a sample of level-1 types (distinct record names so that the schemas stay valid)
RecQ(fs) == [k |-> "record", name |-> Cps("Q"), aliases |-> <<>>, fields |-> fs]
L1Sample == { [k |-> "array", items |-> P("int")], [k |-> "map", values |-> P("string")], [k |-> "union", br |-> << P("null"), P("long") >>],
              RecT(<< Fld("a", P("int")), Fld("b", P("boolean")) >>), RecT(<<>>), [k |-> "array", items |-> P("null")] }
Level2 == { [k |-> "array", items |-> u] : u \in L1Sample } \cup { [k |-> "map", values |-> u] : u \in L1Sample }
          \cup { [k |-> "union", br |-> << P("null"), u >>] : u \in { x \in L1Sample : x.k # "union" } }
          \cup { RecQ(<< Fld("a", u), Fld("b", P("int")) >>) : u \in L1Sample }
Types == IF Depth = 0 THEN Leaves ELSE IF Depth = 1 THEN Leaves \cup Level1 ELSE Leaves \cup Level1 \cup Level2

I(n) == VInt(IFromInt(n))
BigI(mag, neg) == [p |-> "int", neg |-> neg, mag |-> mag]
F0 == [sgn |-> 0, exp |-> 0, man |-> ZeroMan]
Fl(s, e, m1) == [p |-> "float", sgn |-> s, exp |-> e, man |-> << m1, 0, 0, 0, 0, 0, 0, 0, 0, 0, 0, 0, 0 >>]
LeafVals(t) ==
  CASE t.k = "null" -> { VNone }
    [] t.k = "boolean" -> { VBool(TRUE), VBool(FALSE) }
    [] t.k = "int" -> { I(0), I(0 - 1), I(63), I(64), I(0 - 65), I(2147483647), I(0 - 2147483647) }
    [] t.k = "long" -> { I(0), I(0 - 64), I(8192), BigI(NPow2(62), FALSE), BigI(P2_63, TRUE), BigI(NSub(P2_63, <<1>>), FALSE) }
    [] t.k = "float" -> { Fl(0, 0, 0), Fl(1, 0, 0), Fl(0, 1023, 8), Fl(1, 1020, 0), I(3) }
    [] t.k = "double" -> { Fl(0, 0, 0), Fl(0, 1023, 8), Fl(1, 2046, 15), Fl(0, 2047, 0), I(0 - 7) }
    [] t.k = "bytes" -> { VBytes(<<>>), VBytes(<<0, 255>>), [p |-> "bytearray", by |-> <<7>>] }
    [] t.k = "string" -> { VStr(<<>>), VStr(<<97>>), VStr(<<233, 8364, 128512>>) }
    [] t.k = "fixed" -> { VBytes(<<1, 2>>) }
    [] t.k = "enum" -> { VStr(Cps("A")), VStr(Cps("B")) }
Pick2(S) == LET a == CHOOSE x \in S : TRUE IN IF S = {a} THEN {a} ELSE { a, CHOOSE x \in S \ {a} : TRUE }
IsLeaf(t) == t.k \notin {"array", "map", "union", "record"}
RECURSIVE Vals(_)
\* values of a child type: all leaf values, or two values of a composite child
Sub(t) == IF IsLeaf(t) THEN LeafVals(t) ELSE Pick2(Vals(t))
Vals(t) ==
  CASE t.k = "array" -> LET vs == Pick2(Sub(t.items)) IN
                        { VList(<<>>) } \cup { VList(<<a>>) : a \in Sub(t.items) } \cup { VList(<<a, b, a>>) : a, b \in vs } \cup { VTuple(<<a, b>>) : a, b \in vs }
    [] t.k = "map" -> LET vs == Pick2(Sub(t.values)) IN
                      { VDict(<<>>, <<>>) } \cup { VDict(<< VStr(<<107>>) >>, <<a>>) : a \in vs }
                      \cup { VDict(<< VStr(<<107>>), VStr(<<>>), VStr(<<233>>) >>, <<a, b, b>>) : a, b \in vs }
    [] t.k = "union" -> UNION { Sub(t.br[i]) : i \in 1..Len(t.br) }
                        \cup { VTuple(<< VStr(BranchName(t.br[Len(t.br)], EmptyFn)), CHOOSE x \in Sub(t.br[Len(t.br)]) : TRUE >>) }
    [] t.k = "record" -> IF Len(t.fields) = 0 THEN { VDict(<<>>, <<>>) }
                         ELSE { VDict(<< VStr(Cps("b")), VStr(Cps("a")) >>, <<b, a>>) : a \in Pick2(Sub(t.fields[1].type)), b \in Pick2(Sub(t.fields[2].type)) }
    [] OTHER -> LeafVals(t)

Universe == { <<t, v>> : t \in Types, v \in UNION { Vals(u) : u \in Types } } 
Cases == { c \in Universe : c[2] \in Vals(c[1]) }
ChoiceStreams == { <<0>>, <<1, 1>>, <<2, 1, 4, 0>>, <<1, 0, 1, 1, 1, 0>> }

VARIABLE ucase
Init == ucase \in Cases
Next == UNCHANGED ucase

t == ucase[1]
v == ucase[2]
enc == Encode(t, v, EmptyFn, Opts0)
nrm == Norm(t, v, EmptyFn, Opts0)
Dom == Conforms(t, v, EmptyFn, Opts0) /\ enc.ok /\ nrm.ok

InvConformsEncodes == Conforms(t, v, EmptyFn, Opts0) => (enc.ok \/ enc.why = "unspec")
InvRoundTrip == Dom => LET d == Decode(t, enc.b, EmptyFn) IN d.st = "ok" /\ VEq(d.v, nrm.v) /\ d.p = Len(enc.b) + 1
InvMatchCanon == Dom => MatchCanon(t, v, enc.b, EmptyFn, Opts0) /\ MatchAny(t, v, enc.b, EmptyFn, Opts0)
InvPrefixFree == Dom => \A k \in 0..(Len(enc.b) - 1) : Decode(t, SubSeq(enc.b, 1, k), EmptyFn).st = "eof"
InvPartition == Dom => \A ch \in ChoiceStreams :
                         LET L == EncodeLayout(t, v, EmptyFn, Opts0, ch)
                             d == Decode(t, L.b, EmptyFn)
                         IN L.ok /\ d.st = "ok" /\ VEq(d.v, nrm.v) /\ d.p = Len(L.b) + 1 /\ MatchAny(t, v, L.b, EmptyFn, Opts0)
                            /\ (~MatchCanon(t, v, L.b, EmptyFn, Opts0) \/ L.b = enc.b)
InvConcat == Dom => LET d == Dec(t, enc.b \o <<99>> \o enc.b, Len(enc.b) + 2, EmptyFn) IN d.st = "ok" /\ VEq(d.v, nrm.v)
InvNormIdempotent == Dom => LET n2 == Norm(t, nrm.v, EmptyFn, Opts0) IN n2.ok /\ VEq(n2.v, nrm.v)

\* ---- C08 on the same universe: identity, field reordering, skipping, promotion ------------------------------------
InvResolveIdentity == Dom => LET x == Resolve(t, t, enc.b, EmptyFn, EmptyFn) IN x.st = "ok" /\ VEq(x.v, nrm.v) /\ x.p = Len(enc.b) + 1
\* reader with the fields in reverse order: same record
InvResolveReorder == (Dom /\ t.k = "record" /\ Len(t.fields) = 2) =>
                       LET r == [t EXCEPT !.fields = << t.fields[2], t.fields[1] >>]
                           x == Resolve(t, r, enc.b, EmptyFn, EmptyFn)
                       IN x.st = "ok" /\ VEq(x.v, nrm.v)
\* reader without the first field: the second field's value is intact (the skip consumed exactly one value)
InvResolveSkip == (Dom /\ t.k = "record" /\ Len(t.fields) = 2) =>
                    LET r == [t EXCEPT !.fields = << t.fields[2] >>]
                        x == Resolve(t, r, enc.b, EmptyFn, EmptyFn)
                    IN x.st = "ok" /\ x.p = Len(enc.b) + 1 /\ VEq(ValAt(x.v, t.fields[2].name), ValAt(nrm.v, t.fields[2].name))
\* a reader field the writer does not have and that has no default: a resolution error
InvResolveMissing == (Dom /\ t.k = "record") =>
                       Resolve(t, [t EXCEPT !.fields = Append(@, Fld("zz", P("int")))], enc.b, EmptyFn, EmptyFn).st = "raise"
\* promotions: the integer as an IEEE double; incompatible primitives: an error
InvResolvePromote == (Dom /\ t.k \in {"int", "long"}) =>
                       LET x == Resolve(t, P("double"), enc.b, EmptyFn, EmptyFn) IN
                       x.st = "ok" /\ x.v = VFloat(IntToDouble(IOf(v)).f) /\ Resolve(t, P("string"), enc.b, EmptyFn, EmptyFn).st = "raise"
\* reader union: the branch of the same type wins over a promotion
InvResolveUnion == (Dom /\ t.k = "int") =>
                     LET x == Resolve(t, [k |-> "union", br |-> << P("double"), P("int") >>], enc.b, EmptyFn, EmptyFn) IN x.st = "ok" /\ x.v = v

\* ---- C09 / C10 on the same universe ---------------------------------------------------------------------------------
\* the branch a writer must take is one the datum conforms to, for every value of the universe offered to every union of the universe
UnionTypes == { u \in Types : u.k = "union" }
AllVals == UNION { Vals(u) : u \in Types }
InvChooseConforms == \A u \in UnionTypes :
                       LET ch == ChooseBranch(u.br, v, EmptyFn, Opts0) IN
                       /\ (ch.st = "ok" => Conf(u.br[ch.i], ch.v, EmptyFn, Opts0, TRUE))
                       /\ (ch.st = "raise" => ~Conforms(u, v, EmptyFn, Opts0))
                       /\ (Conforms(u, v, EmptyFn, Opts0) => ch.st \in {"ok", "unspec"})
\* strict conformance implies conformance; conformance is insensitive to the tuple option for values without tuples
InvStrictImplies == Conforms(t, v, EmptyFn, [strict |-> TRUE, tuples |-> TRUE]) => Conforms(t, v, EmptyFn, Opts0)
\* the writers' strictness modes are ordered: strict => strict_allow_default => lax; and what a strict writer accepts it encodes as the lax one does
InvWModeOrder ==
  LET cs == Conforms(t, v, EmptyFn, [strict |-> FALSE, tuples |-> TRUE, wmode |-> "strict"])
      ca == Conforms(t, v, EmptyFn, [strict |-> FALSE, tuples |-> TRUE, wmode |-> "sad"])
  IN (cs => ca) /\ (ca => Conforms(t, v, EmptyFn, Opts0))
\* what is read back conforms again, and is a fixed point of normalisation
InvNormConforms == Dom => Conforms(t, nrm.v, EmptyFn, Opts0)

\* G: print the case for replay (single worker)
EmitOn == TLCGet("config").worker = 1
Emit == IF Dom THEN PrintT(<<"G", ToJson([t |-> t, v |-> v, b |-> enc.b, expect |-> nrm.v,
                                              layouts |-> MapSeq(LAMBDA ch : EncodeLayout(t, v, EmptyFn, Opts0, ch).b, SetToSeq(ChoiceStreams))])>>)
        ELSE TRUE
=============================================================================
