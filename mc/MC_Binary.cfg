INIT Init
NEXT Next
CONSTANT Depth = 1
INVARIANT InvConformsEncodes
INVARIANT InvRoundTrip
INVARIANT InvMatchCanon
INVARIANT InvPrefixFree
INVARIANT InvPartition
INVARIANT InvConcat
INVARIANT InvNormIdempotent
CHECK_DEADLOCK FALSE
