INIT Init
NEXT Next
CONSTANT Depth = 1
INVARIANT Emit
CHECK_DEADLOCK FALSE
