SPECIFICATION Spec
CONSTANTS
  MaxOps = 4
  Policy = "any"
  Interval = 3
INVARIANT InvReadBack
INVARIANT InvDurable
INVARIANT InvFile
INVARIANT InvFlushed
INVARIANT InvCutSafe
INVARIANT InvSyncSafe
CHECK_DEADLOCK FALSE
