----------------------------- MODULE GenLayout -----------------------------
(* G direction for C03 / C06: for every (schema, datum, choice stream) case   *)
(* the spec produces a specification-valid layout, checks on it the spec's    *)
(* own properties (partition invariance, self-delimitation) and prints the    *)
(* bytes, the expected value, the index positions and the encodings of the    *)
(* out-of-range indices to plant; harness/p_layout.py replays them.           *)
EXTENDS Naturals, Integers, Sequences, TLC, Json, IOUtils, JCommon, AvroLayout

CasesIn == ndJsonDeserialize(IOEnv.CASES)
NCases == Len(CasesIn)

BadIdx(n) == << VarintInt(0 - 1), VarintInt(0 - 2), VarintNat(n), VarintNat(n + 1), VarintInt(0 - n), VarintNat(64 + n) >>

Gen(c) ==
  LET P == Parse(c.schema)
      o == [strict |-> FALSE, tuples |-> c.tuples]
  IN IF ~P.ok THEN [st |-> "H.schema"]
     ELSE LET t == P.t
              names == P.st.names
          IN IF ~Conforms(t, c.datum, names, o) THEN [st |-> "H.conforms"]
             ELSE LET L == EncodeLayout(t, c.datum, names, o, c.choices)
                      nrm == Norm(t, c.datum, names, o)
                  IN IF ~L.ok \/ ~nrm.ok THEN [st |-> "unspec"]
                     ELSE LET d == Decode(t, L.b, names)
                              canon == Encode(t, c.datum, names, o)
                          IN [st |-> "ok", b |-> L.b, expect |-> nrm.v, ix |-> L.ix,
                              bad |-> MapSeq(LAMBDA e : BadIdx(e.n), L.ix),
                              marker |-> VarintNat(12345),
                              \* properties of the spec itself on this instance (M flavour)
                              s_partition |-> d.st = "ok" /\ VEq(d.v, nrm.v) /\ d.p = Len(L.b) + 1,
                              s_match |-> MatchAny(t, c.datum, L.b, names, o),
                              s_canon |-> canon.ok /\ Decode(t, canon.b, names).st = "ok" /\ VEq(Decode(t, canon.b, names).v, nrm.v),
                              nblocks |-> Len(L.b) - (IF canon.ok THEN Len(canon.b) ELSE 0)]

\* NOTE on the variable's name: a state variable that shares its name with bound variables / operator parameters of the extended
\* modules (i, s, c, d ...) makes TLC treat those expressions as state-level and stop caching lazily evaluated values
\* (measured: 240 s instead of 3 s for one 200-element array). Hence the unusual name.
VARIABLE casepos
Init == casepos = 1
Next == /\ casepos <= NCases
        /\ PrintT(<<"B", CasesIn[casepos].id>>)
        /\ PrintT(<<"G", CasesIn[casepos].id, ToJson(Gen(CasesIn[casepos]))>>)
        /\ casepos' = casepos + 1
AllJudged == TLCGet("stats").diameter - 1 = NCases
=============================================================================
