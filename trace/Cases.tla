------------------------------- MODULE Cases -------------------------------
(* Batch validation of logged cases (V direction): one TLC behaviour walks   *)
(* the NDJSON file given in env CASES; every case is judged by the spec and  *)
(* the verdict printed.  POSTCONDITION checks that every case was judged.    *)
EXTENDS Naturals, Sequences, TLC, Json, IOUtils, JBinary, JFile, JWriter, JSchema, JLogical, JData, JResolve, JJson, JLoad, JForms, JSession, JSuite

CasesIn == ndJsonDeserialize(IOEnv.CASES)
NCases == Len(CasesIn)

Judge(c) ==
  CASE c.op = "sl_rt" -> Judge_sl_rt(c)
    [] c.op = "file_rt" -> Judge_file_rt(c)
    [] c.op = "cuts" -> Judge_cuts(c)
    [] c.op = "file_ind" -> Judge_file_ind(c)
    [] c.op = "is_avro" -> Judge_is_avro(c)
    [] c.op = "whist" -> Judge_whist(c)
    [] c.op = "flushvis" -> Judge_flushvis(c)
    [] c.op = "parse" -> Judge_parse(c)
    [] c.op = "logical" -> Judge_logical(c)
    [] c.op = "validate" -> Judge_validate(c)
    [] c.op = "resolve" -> Judge_resolve(c)
    [] c.op = "json" -> Judge_json(c)
    [] c.op = "load" -> Judge_load(c)
    [] c.op = "forms" -> Judge_forms(c)
    [] c.op = "session" -> Judge_session(c)
    [] c.op = "t_sl_write" -> Judge_t_sl_write(c)
    [] c.op = "t_sl_read" -> Judge_t_sl_read(c)
    [] c.op = "t_validate" -> Judge_t_validate(c)
    [] c.op = "t_canon" -> Judge_t_canon(c)
    [] c.op = "t_file" -> Judge_t_file(c)
    [] c.op = "union_rt" -> Judge_union_rt(c)
    [] c.op = "generate" -> Judge_generate(c)
    [] c.op = "canon" -> Judge_canon(c)
    [] c.op = "fingerprint" -> Judge_fingerprint(c)
    [] OTHER -> << "H.op=fail" >>

\* NOTE on the variable's name: a state variable that shares its name with bound variables / operator parameters of the extended
\* modules (i, s, c, d ...) makes TLC treat those expressions as state-level and stop caching lazily evaluated values
\* (measured: 240 s instead of 3 s for one 200-element array). Hence the unusual name.
VARIABLE casepos
Init == casepos = 1
Next == /\ casepos <= NCases
        /\ PrintT(<<"B", CasesIn[casepos].id>>)
        /\ PrintT(<<"R", CasesIn[casepos].id, Judge(CasesIn[casepos])>>)
        /\ casepos' = casepos + 1
AllJudged == TLCGet("stats").diameter - 1 = NCases
=============================================================================
