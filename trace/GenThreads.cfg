INIT Init
NEXT Next
POSTCONDITION AllJudged
CHECK_DEADLOCK FALSE
