------------------------------ MODULE JWriter ------------------------------
(* Trace validation of container-writer histories (C07): every logged event  *)
(* carries the bytes on the stream after the call; the stream is parsed by   *)
(* AvroFile!ParseFile and pins the abstract state's blocks; TLC infers the   *)
(* pending block and the dump decisions from the AvroWriter actions.         *)
EXTENDS Naturals, Integers, Sequences, SequencesExt, FiniteSets, TLC, JCommon, AvroCanon, AvroFile, AvroWriter

BlockRecs(pf) == MapSeq(LAMBDA b : b.recs, pf.blocks)

\* candidates for the successor state: blocks are what the stream shows; TLC picks pending/submitted/flushed
Cands(s, logged, r, rs) ==
  { [blocks |-> logged, pending |-> p, submitted |-> sub, flushed |-> f] :
      p \in { <<>>, s.pending, Append(s.pending, r) },
      sub \in { s.submitted, Append(s.submitted, r), s.submitted \o rs },
      f \in BOOLEAN }

\* c.schema raw, c.codec, c.sync, c.events << [op, stream, ...] >>, c.hs, c.inflate, c.donors << <<block record lists>> >>
\* folding state: [st (set of abstract states consistent with the trace so far), hdr (header bytes), bad (first failing clause or "")]
StepEv(acc, k, c, P) ==
  IF acc.bad # "" THEN acc
  ELSE
  LET e == c.events[k]
      o == [strict |-> FALSE, tuples |-> TRUE]
      pf == ParseFile(e.stream, c.hs, c.inflate)
      at(name) == name \o "@" \o ToString(k)
      fail(name) == [acc EXCEPT !.bad = at(name)]
  IN IF e.op # "write" /\ e.raised THEN fail("C07.op_raised")
     ELSE IF ~pf.ok THEN (IF pf.why \in {"H.inflate"} THEN fail("H.inflate")
                     ELSE IF pf.why = "H.schematext" THEN fail("C07.header") ELSE fail("C07.layout"))
     ELSE
     LET logged == BlockRecs(pf)
         hdr == SubSeq(e.stream, 1, pf.hend - 1)
         hdrOk == acc.hdr = <<>> \/ hdr = acc.hdr
         conf0 == e.op = "write" /\ Conforms(P.t, e.rec, P.st.names, o)
         r0 == IF conf0 THEN Norm(P.t, e.rec, P.st.names, o) ELSE [ok |-> FALSE]
         \* a record is writable when it conforms and has a defined stored form (a float beyond binary32 range under 'float' has none)
         conf == conf0 /\ r0.ok
         r == IF conf THEN r0 ELSE [ok |-> TRUE, v |-> VNone]
         rs == IF e.op = "wblock" THEN acc.donors[e.donor][e.bi] ELSE <<>>
         next == UNION { { s2 \in Cands(s, logged, r.v, rs) :
                             CASE e.op = "create" -> s2 = WInit /\ logged = <<>>
                               [] e.op = "write" -> IF e.raised THEN WriteFail(s, s2) ELSE Write(s, s2, r.v)
                               [] e.op = "flush" -> Flush(s, s2)
                               [] e.op = "wblock" -> WriteBlock(s, s2, rs)
                               [] e.op = "reopen" -> Reopen(s, s2) } : s \in acc.st }
     IN IF ~hdrOk THEN fail("C07.header")
        ELSE IF e.op = "write" /\ ~e.raised /\ ~r.ok THEN [acc EXCEPT !.bad = at("unspec")]
        ELSE IF e.op = "write" /\ e.raised /\ conf THEN fail("C07.rejected_conforming")
        ELSE IF e.op = "write" /\ ~e.raised /\ ~conf THEN [acc EXCEPT !.bad = at("unspec")]   \* accepted without validation: outside the property
        ELSE IF next = {} THEN
             fail(CASE e.op = "write" /\ e.raised -> "C07.failed_write"
                    [] e.op = "flush" -> "C07.readback"
                    [] e.op = "wblock" -> "C07.write_block"
                    [] e.op = "reopen" -> "C07.append"
                    [] OTHER -> "C07.write")
        ELSE IF \E s2 \in next : ~ReadBack(s2) \/ ~Durable(s2) THEN fail("C07.readback")
        ELSE IF e.op = "flush" /\ "readback" \in DOMAIN e
                /\ ~(e.readback.ok /\ \A s2 \in next : SeqEq(e.readback.recs, s2.submitted)) THEN fail("C07.reader")
        ELSE [st |-> next, hdr |-> hdr, bad |-> "", donors |-> acc.donors]

\* op = "flushvis": a Writer on a buffered real file; after Writer.flush() (nothing else touching the file object) the file is read
\* through a second handle: c.file; c.records = the records submitted so far
Judge_flushvis(c) ==
  LET P == Parse(c.schema) IN
  IF ~P.ok THEN << Cl("H.schema", "fail") >>
  ELSE LET pf == ParseFile(c.file, c.hs, c.inflate)
           o == [strict |-> FALSE, tuples |-> TRUE]
           nrm == MapSeq(LAMBDA d : Norm(P.t, d, P.st.names, o), c.records)
       IN IF \E i \in 1..Len(nrm) : ~nrm[i].ok THEN << Cl("H.conforms", "fail") >>
          ELSE << Tri("C07.flush_reaches_stream", pf.ok /\ Len(pf.records) = Len(nrm)
                                                  /\ \A i \in 1..Len(nrm) : VEq(pf.records[i], nrm[i].v)) >>

Judge_whist(c) ==
  LET P == Parse(c.schema) IN
  IF ~P.ok THEN << Cl("H.schema", "fail") >>
  ELSE LET dpf == MapSeq(LAMBDA d : ParseFile(d.file, d.hs, d.inflate), c.donorfiles)
           donors == MapSeq(LAMBDA d : IF d.ok THEN BlockRecs(d) ELSE <<>>, dpf)
           fin == IF \E i \in 1..Len(dpf) : ~dpf[i].ok THEN [bad |-> "H.donor"]
                  ELSE FoldLeft(LAMBDA acc, k : StepEv(acc, k, c, P), [st |-> {WInit}, hdr |-> <<>>, bad |-> "", donors |-> donors],
                                [k \in 1..Len(c.events) |-> k])
           first == ParseFile(c.events[1].stream, c.hs, c.inflate)
       IN << IF fin.bad = "" THEN Cl("C07.history", "ok")
             ELSE IF SubSeq(fin.bad, 1, 6) = "unspec" THEN
                  \* a non-conforming record was accepted (no validator): what it contributes is not pinned, but after the final flush
                  \* the stream is still a file that reads back, with one record per accepted write / copied record
                  LET n == Len(c.events)
                      lastpf == ParseFile(c.events[n].stream, c.hs, c.inflate)
                      nsub == FoldLeft(LAMBDA a, k : LET e == c.events[k] IN
                                         a + (IF e.op = "write" /\ ~e.raised THEN 1
                                              ELSE IF e.op = "wblock" /\ ~e.raised THEN Len(donors[e.donor][e.bi]) ELSE 0),
                                       0, [k \in 1..n |-> k])
                  IN IF c.events[n].op # "flush" \/ \E k \in 1..n : c.events[k].raised /\ c.events[k].op # "write"
                     THEN Cl("C07.history", "unspec")
                     ELSE Tri("C07.accepted_then_readable", lastpf.ok /\ Len(lastpf.records) = nsub)
             ELSE Cl(fin.bad, "fail"),
             \* the header is the one asked for at creation
             When("C07.created", first.ok,
                  /\ CanonTree(first.t) = CanonTree(P.t) /\ first.codec = c.codec
                  /\ (c.sync # <<>> => first.sync = c.sync)) >>
=============================================================================
