------------------------------ MODULE JSchema ------------------------------
(* Judges for parse_schema, canonical form and fingerprint events            *)
(* (C11, C13, C14).                                                          *)
EXTENDS Naturals, Integers, Sequences, SequencesExt, FiniteSets, TLC, JCommon, Utf8, AvroCanon, AvroBinary, AvroResolve, Rabin

IsParseError(res) == ~res.ok /\ (\E i \in 1..Len(res.exc) : res.exc[i] \in {"SchemaParseException", "UnknownType"})
NameSet(names) == { names[i] : i \in 1..Len(names) }

\* op = "parse": c.schema (raw), c.res = [ok |-> TRUE, names <<text>>, parsed (JSON of the returned schema, markers stripped)] | [ok |-> FALSE, exc]
Judge_parse(c) ==
  LET P == Parse(c.schema) IN
  IF P.ok THEN
     IF ~c.res.ok THEN << Cl("C11.accept", "fail") >>
     ELSE LET R == Parse(c.res.parsed) IN
          << Cl("C11.accept", "ok"),
             Tri("C11.names", NameSet(c.res.names) = DOMAIN P.st.names),
             \* the returned schema carries full names and resolved references: re-parsing it (no namespace context left) gives the same tree
             \* (a null-namespace type nested in a namespaced one keeps "namespace": "" in the result - repaired defect 6173736)
             Tri("C11.tree", R.ok /\ R.t = P.t),
             \* ... and every by-name reference in it is spelled with the full name of the definition it denotes (the library looks
             \* references up literally)
             LET RF == ParseFlat(c.res.parsed) IN Tri("C11.refs", RF.ok /\ RF.t = P.t) >>
  ELSE IF P.kind = "other" THEN << Cl("C11.reject", "unspec") >>
  ELSE << Tri("C11.reject." \o P.kind, IsParseError(c.res)) >>

\* a logical annotation anywhere in the tree (which side's annotation governs a resolved read is not pinned by the properties)
RECURSIVE HasLogical(_)
HasLogical(t) ==
  CASE t.k = "array" -> HasLogical(t.items)
    [] t.k = "map" -> HasLogical(t.values)
    [] t.k = "union" -> \E i \in 1..Len(t.br) : HasLogical(t.br[i])
    [] t.k = "record" -> \E i \in 1..Len(t.fields) : HasLogical(t.fields[i].type)
    [] t.k \in {"ref", "enum"} -> FALSE
    [] OTHER -> "lt" \in DOMAIN t /\ t.lt # NoLt

\* op = "canon": c.schema, c.text (to_parsing_canonical_form), c.text2 (canonical form of json.loads(text)), c.tree2 (json.loads(text)),
\*   c.variants << [schema, text] >> cosmetic rewrites, c.enc << [datum, bytes (written under schema), back (read under canonical schema)] >>
Judge_canon(c) ==
  LET P == Parse(c.schema) IN
  IF ~P.ok THEN << Cl("H.schema", "fail") >>
  ELSE IF "perr" \in DOMAIN c THEN << Cl("C11.accept", "fail"), Cl("C13.text", "fail") >>
  ELSE LET want == CanonText(CanonTree(P.t))
           P2 == Parse(c.tree2)
           o == [strict |-> FALSE, tuples |-> TRUE]
       IN << Tri("C13.text", c.text = want),
             IF NullNsInside(P.t, <<>>) THEN Cl("C13.fixpoint", "unspec")
             ELSE Tri("C13.fixpoint", c.text2 = c.text /\ P2.ok /\ CanonText(CanonTree(P2.t)) = want),
             \* the canonical form is itself a schema describing the same encoding
             IF NullNsInside(P.t, <<>>) THEN Cl("C13.valid_schema", "unspec")
             ELSE Tri("C13.valid_schema", P2.ok /\ CanonTree(P2.t) = CanonTree(P.t)),
             IF Len(c.variants) = 0 THEN Cl("C13.invariant", "skip")
             ELSE IF \E i \in 1..Len(c.variants) : LET V == Parse(c.variants[i].schema) IN ~V.ok \/ CanonTree(V.t) # CanonTree(P.t)
                  THEN Cl("H.cosmetic", "fail")
             ELSE Tri("C13.invariant", \A i \in 1..Len(c.variants) : c.variants[i].text = c.text),
             IF Len(c.enc) = 0 \/ ~P2.ok \/ NullNsInside(P.t, <<>>) THEN Cl("C13.same_encoding", "skip")
             ELSE Tri("C13.same_encoding",
                      \A i \in 1..Len(c.enc) :
                         LET e == c.enc[i]
                             d1 == Decode(CanonTree(P.t), e.bytes, MapNames(P.st.names))
                             d2 == Decode(P2.t, e.bytes, P2.st.names)
                         IN d1.st = "ok" /\ d2.st = "ok" /\ VEq(d1.v, d2.v) /\ e.back.ok /\ VEq(e.back.v, d2.v)),
             \* ... also when both are given, in either role (schemas without logical annotations: which side's annotation governs a
             \* resolved read is not pinned)
             IF Len(c.enc) = 0 \/ ~P2.ok \/ NullNsInside(P.t, <<>>) \/ HasLogical(P.t) THEN Cl("C13.resolves", "skip")
             ELSE LET ResOk(wt, wn, rt, rn, bs, got) ==
                        LET x == Resolve(wt, rt, bs, wn, rn) IN
                        CASE x.st = "ok" -> got.ok /\ VEq(got.v, x.v)
                          [] x.st = "raise" -> ~got.ok        \* (two types with one simple name in a union: matched by unqualified name)
                          [] OTHER -> TRUE
                  IN Tri("C13.resolves",
                         \A i \in 1..Len(c.enc) :
                            LET e == c.enc[i] IN
                            /\ ResOk(P.t, P.st.names, P2.t, P2.st.names, e.bytes, e.back2)
                            /\ ResOk(P2.t, P2.st.names, P.t, P.st.names, e.bytes, e.back3)
                            \* (the canonical form has no defaults: only data that name every field are written under it)
                            /\ ("bytes2" \in DOMAIN e => e.bytes2.ok /\ e.bytes2.bytes = e.bytes)
                            /\ ("back4" \in DOMAIN e =>
                                  LET V == Parse(c.variants[1].schema) IN V.ok => ResOk(P.t, P.st.names, V.t, V.st.names, e.bytes, e.back4))) >>

\* op = "fingerprint": c.text (code points), c.alg (text), c.res = [ok, hex (text)] | [ok |-> FALSE, exc], c.known << [name, hex] >> (hashlib digests of the UTF-8 bytes)
A_RABIN == Cps("CRC-64-AVRO")
JavaName(alg) == IF alg = Cps("MD5") THEN Cps("md5") ELSE IF alg = Cps("SHA-256") THEN Cps("sha256") ELSE alg
Judge_fingerprint(c) ==
  LET alg == JavaName(c.alg)
      hits == { i \in 1..Len(c.known) : c.known[i].name = alg }
  IN IF ~AllScalar(c.text) THEN << Cl("C14.crc", "unspec") >>
     ELSE IF c.alg = A_RABIN THEN << Tri("C14.crc", c.res.ok /\ c.res.hex = Hex64LE(FP(Utf8Enc(c.text)))) >>
     ELSE IF hits # {} THEN << Tri("C14.digest", c.res.ok /\ c.res.hex = c.known[CHOOSE i \in hits : TRUE].hex) >>
     ELSE << Tri("C14.unknown", ~c.res.ok /\ \E i \in 1..Len(c.res.exc) : c.res.exc[i] = "ValueError") >>
=============================================================================
