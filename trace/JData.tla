-------------------------------- MODULE JData --------------------------------
(* Judges for validation, union-choice and generation events (C09, C10, C20).  *)
EXTENDS Naturals, Integers, Sequences, SequencesExt, FiniteSets, TLC, JCommon, AvroFile

IsValErr(r) == ~r.ok /\ (\E i \in 1..Len(r.exc) : r.exc[i] = "ValidationError")

\* a bytes/bytearray value anywhere in v, an array type anywhere in the schema: Python's Sequence ABC makes the two meet (Unspecified, D.2)
RECURSIVE HasBytesVal(_)
HasBytesVal(v) == CASE v.p \in {"bytes", "bytearray"} -> TRUE
                    [] v.p \in {"list", "tuple"} -> \E i \in 1..Len(v.it) : HasBytesVal(v.it[i])
                    [] v.p = "dict" -> \E i \in 1..Len(v.vs) : HasBytesVal(v.vs[i])
                    [] OTHER -> FALSE
RECURSIVE HasArrayType(_, _, _)
HasArrayType(t, names, seen) ==
  CASE t.k = "array" -> TRUE
    [] t.k = "map" -> HasArrayType(t.values, names, seen)
    [] t.k = "union" -> \E i \in 1..Len(t.br) : HasArrayType(t.br[i], names, seen)
    [] t.k = "record" -> \E i \in 1..Len(t.fields) : HasArrayType(t.fields[i].type, names, seen)
    [] t.k = "ref" -> IF t.name \in seen THEN FALSE ELSE HasArrayType(names[t.name], names, seen \cup {t.name})
    [] OTHER -> FALSE
\* a tuple that is not a (name, value) pair: at a union position the implementation tries to unpack it as a hint (Unspecified, D.2)
RECURSIVE HasOddTuple(_)
HasOddTuple(v) == CASE v.p = "tuple" -> Len(v.it) # 2 \/ v.it[1].p # "str" \/ HasOddTuple(v.it[2])
                    [] v.p = "list" -> \E i \in 1..Len(v.it) : HasOddTuple(v.it[i])
                    [] v.p = "dict" -> \E i \in 1..Len(v.vs) : HasOddTuple(v.vs[i])
                    [] OTHER -> FALSE
RECURSIVE HasUnionType(_, _, _)
HasUnionType(t, names, seen) ==
  CASE t.k = "union" -> TRUE
    [] t.k = "array" -> HasUnionType(t.items, names, seen)
    [] t.k = "map" -> HasUnionType(t.values, names, seen)
    [] t.k = "record" -> \E i \in 1..Len(t.fields) : HasUnionType(t.fields[i].type, names, seen)
    [] t.k = "ref" -> IF t.name \in seen THEN FALSE ELSE HasUnionType(names[t.name], names, seen \cup {t.name})
    [] OTHER -> FALSE
\* a union with two or more record branches somewhere (which of them a strict writer takes is not pinned)
RECURSIVE HasMultiRecordUnion(_, _, _)
HasMultiRecordUnion(t, names, seen) ==
  CASE t.k = "union" -> \/ Cardinality({ i \in 1..Len(t.br) : Deref(t.br[i], names).k = "record" }) >= 2
                        \/ \E i \in 1..Len(t.br) : HasMultiRecordUnion(t.br[i], names, seen)
    [] t.k = "array" -> HasMultiRecordUnion(t.items, names, seen)
    [] t.k = "map" -> HasMultiRecordUnion(t.values, names, seen)
    [] t.k = "record" -> \E i \in 1..Len(t.fields) : HasMultiRecordUnion(t.fields[i].type, names, seen)
    [] t.k = "ref" -> IF t.name \in seen THEN FALSE ELSE HasMultiRecordUnion(names[t.name], names, seen \cup {t.name})
    [] OTHER -> FALSE
\* a union branch that refers BY NAME to an enum or fixed (what return_record_name reports for it is not pinned: the library cannot tell
\* such a reference from a record's)
RECURSIVE HasNonRecordRefBranch(_, _, _)
HasNonRecordRefBranch(t, names, seen) ==
  CASE t.k = "union" -> \/ \E i \in 1..Len(t.br) : t.br[i].k = "ref" /\ names[t.br[i].name].k # "record"
                        \/ \E i \in 1..Len(t.br) : HasNonRecordRefBranch(t.br[i], names, seen)
    [] t.k = "array" -> HasNonRecordRefBranch(t.items, names, seen)
    [] t.k = "map" -> HasNonRecordRefBranch(t.values, names, seen)
    [] t.k = "record" -> \E i \in 1..Len(t.fields) : HasNonRecordRefBranch(t.fields[i].type, names, seen)
    [] t.k = "ref" -> IF t.name \in seen THEN FALSE ELSE HasNonRecordRefBranch(names[t.name], names, seen \cup {t.name})
    [] OTHER -> FALSE
Ambiguous(t, v, names) == \/ (HasBytesVal(v) /\ HasArrayType(t, names, {}))
                          \/ (HasOddTuple(v) /\ HasUnionType(t, names, {}))

\* op = "validate": c.schema, c.datum, c.strict, c.tuples,
\*   c.quiet [ok, v (bool)] | [ok |-> FALSE, exc]     validate(..., raise_errors=False)
\*   c.loud  same                                      validate(..., raise_errors=True)
\*   c.sl    [ok, bytes, back [ok, v]]                 schemaless_writer + reader (non-strict options, same tuple option)
\*   c.gate  [raised, file, hs, inflate, others <<V>>] Writer(validator=True): others, datum, others written; file after flush
Judge_validate(c) ==
  LET P == Parse(c.schema) IN
  IF ~P.ok THEN << Cl("H.schema", "fail") >>
  ELSE
  LET t == P.t
      names == P.st.names
      o == [strict |-> c.strict, tuples |-> c.tuples]
      o0 == [strict |-> FALSE, tuples |-> c.tuples]
      conf == Conforms(t, c.datum, names, o)
      conf0 == Conforms(t, c.datum, names, o0)
      amb == Ambiguous(t, c.datum, names)
      nrm == Norm(t, c.datum, names, o0)
      g == c.gate
      pf == ParseFile(g.file, g.hs, g.inflate)
      expectGate == IF g.raised THEN g.others \o g.others ELSE g.others \o << c.datum >> \o g.others
      expRecs == MapSeq(LAMBDA d : Norm(t, d, names, o0), expectGate)
  IN IF amb THEN << Cl("C10.iff", "unspec") >>
     ELSE
     << Tri("C10.iff", c.quiet.ok /\ c.quiet.v = [p |-> "bool", b |-> conf]),
        Tri("C10.raise", IF conf THEN c.loud.ok /\ c.loud.v = [p |-> "bool", b |-> TRUE] ELSE IsValErr(c.loud)),
        \* everything validate accepts the writers encode and round-trip
        IF ~conf0 THEN Cl("C10.accept_write", "skip")
        ELSE IF ~nrm.ok THEN Cl("C10.accept_write", "unspec")
        ELSE Tri("C10.accept_write", c.sl.ok /\ MatchCanon(t, c.datum, c.sl.bytes, names, o0) /\ c.sl.back.ok /\ VEq(c.sl.back.v, nrm.v)),
        \* the writers' own strict modes (exactly the schema's fields / absent only with a default); unions are left out: which branch a
        \* strict writer takes is not pinned
        IF "wstrict" \notin DOMAIN c THEN Cl("C10.strict_write", "skip")
        ELSE IF HasUnionType(t, names, {}) THEN Cl("C10.strict_write", "unspec")
        ELSE IF ~conf0 THEN Cl("C10.strict_write", "skip")      \* what a writer without validation does with non-conforming data is not claimed
        ELSE Tri("C10.strict_write",
                 /\ c.wstrict.ok = Conforms(t, c.datum, names, [strict |-> FALSE, tuples |-> c.tuples, wmode |-> "strict"])
                 /\ c.wsad.ok = Conforms(t, c.datum, names, [strict |-> FALSE, tuples |-> c.tuples, wmode |-> "sad"])
                 /\ (c.wstrict.ok => MatchCanon(t, c.datum, c.wstrict.bytes, names, o0))
                 /\ (c.wsad.ok => MatchCanon(t, c.datum, c.wsad.bytes, names, o0))),
        \* a writer with validation enabled rejects everything validate rejects before emitting any byte of that record
        IF conf0 THEN (IF \E i \in 1..Len(expRecs) : ~expRecs[i].ok THEN Cl("C10.gate", "unspec")
                       ELSE Tri("C10.gate_accept", ~g.raised /\ pf.ok /\ Len(pf.records) = Len(expRecs)
                                                   /\ \A i \in 1..Len(expRecs) : VEq(pf.records[i], expRecs[i].v)))
        ELSE IF \E i \in 1..Len(g.others) : ~Norm(t, g.others[i], names, o0).ok THEN Cl("C10.gate", "unspec")
        ELSE Tri("C10.gate", g.raised /\ pf.ok /\ Len(pf.records) = 2 * Len(g.others)
                             /\ \A i \in 1..Len(pf.records) : VEq(pf.records[i], Norm(t, expectGate[i], names, o0).v)) >>

\* op = "union_rt": like sl_rt for one datum, plus
\*   c.named [ok, v]  value read with return_named_type=True;  c.rewrite [ok, bytes] that value written back
Judge_union_rt(c) ==
  LET P == Parse(c.schema) IN
  IF ~P.ok THEN << Cl("H.schema", "fail") >>
  ELSE IF "perr" \in DOMAIN c THEN << Cl("C11.accept", "fail"), Cl("C09.index", "fail") >>
  ELSE
  LET t == P.t
      names == P.st.names
      o == [strict |-> FALSE, tuples |-> c.tuples]
      d == c.datum
      w == c.write
      enc == Encode(t, d, names, o)
      conf == Conforms(t, d, names, o)
      nn == NormN(t, d, names, o, TRUE)
      no == NormNO(t, d, names, o)
  IN IF Ambiguous(t, d, names) THEN << Cl("C09.index", "unspec") >>
     ELSE IF ~conf THEN
        \* only hinted data are offered non-conforming on purpose: a hint naming no branch must be an error
        << IF c.badhint THEN Tri("C09.hint_error", ~w.ok) ELSE Cl("H.conforms", "fail") >>
     ELSE IF ~enc.ok /\ enc.why = "unspec" THEN << Cl("C09.index", "unspec") >>
     ELSE IF ~enc.ok THEN << Cl("S.encode", "fail") >>
     ELSE << Tri("C09.index", w.ok /\ w.bytes = enc.b),
             IF ~nn.ok \/ ~w.ok THEN Cl("C09.named", "skip") ELSE Tri("C09.named", c.named.ok /\ VEq(c.named.v, nn.v)),
             \* closure is claimed for named branches: where the spec itself re-encodes the reported value to the same bytes
             \* (a hint that forced a non-default primitive branch is lost on reading, by design)
             IF ~nn.ok \/ ~w.ok \/ ~c.named.ok THEN Cl("C09.closure", "skip")
             ELSE LET re == Encode(t, nn.v, names, o) IN
                  IF ~re.ok \/ re.b # enc.b THEN Cl("C09.closure", "skip")
                  ELSE Tri("C09.closure", c.rewrite.ok /\ c.rewrite.bytes = w.bytes),
             \* return_named_type together with the record-name override of the OTHER option family: named-type reporting as usual
             IF "named_rro" \notin DOMAIN c \/ ~nn.ok \/ ~w.ok THEN Cl("C09.named_with_record_override", "skip")
             ELSE Tri("C09.named_with_record_override", c.named_rro.ok /\ VEq(c.named_rro.v, nn.v)),
             \* return_record_name: pairs for record branches (inline or by name, "error" records included), bare values otherwise
             IF "recname" \notin DOMAIN c \/ ~w.ok THEN Cl("C09.record_name", "skip")
             ELSE IF HasNonRecordRefBranch(t, names, {}) THEN Cl("C09.record_name", "unspec")
             ELSE LET nr == NormR(t, d, names, o) IN
                  IF ~nr.ok THEN Cl("C09.record_name", "skip") ELSE Tri("C09.record_name", c.recname.ok /\ VEq(c.recname.v, nr.v)),
             \* the *_override variant: a pair only where the union has more than one named type; same closure
             IF ~no.ok \/ ~w.ok THEN Cl("C09.named_override", "skip") ELSE Tri("C09.named_override", c.named_o.ok /\ VEq(c.named_o.v, no.v)),
             IF ~no.ok \/ ~w.ok \/ ~c.named_o.ok THEN Cl("C09.closure_override", "skip")
             ELSE LET re == Encode(t, no.v, names, o) IN
                  IF ~re.ok \/ re.b # enc.b THEN Cl("C09.closure_override", "skip")
                  ELSE Tri("C09.closure_override", c.rewrite_o.ok /\ c.rewrite_o.bytes = w.bytes) >>

\* op = "generate": c.schema, c.n, c.values <<V>> | c.exc, c.rts << [ok, bytes, back] >>, c.valid << BOOLEAN >>, c.filerecs [ok, recs]
Judge_generate(c) ==
  LET P == Parse(c.schema) IN
  IF ~P.ok THEN << Cl("H.schema", "fail") >>
  ELSE IF "perr" \in DOMAIN c THEN << Cl("C11.accept", "fail"), Cl("C20.generate", "fail") >>
  \* an adversarial (scripted) random source that always takes the recursive branch of a union is not a state of the real generator
  ELSE IF ~c.res.ok /\ "scripted" \in DOMAIN c.res /\ c.res.scripted /\ ~c.through_collection THEN << Cl("C20.generate", "unspec") >>
  ELSE IF ~c.res.ok /\ c.no_finite_value THEN << Cl("C20.generate", "unspec") >>      \* the type has no finite instance at all
  ELSE IF ~c.res.ok THEN << Cl("C20.generate", "fail") >>
  ELSE
  LET t == P.t
      names == P.st.names
      o == Opts0
      vs == c.res.values
      nrm == MapSeq(LAMBDA v : Norm(t, v, names, o), vs)
  IN << Tri("C20.count", Len(vs) = c.n),
        Tri("C20.conforms", \A i \in 1..Len(vs) : Conforms(t, vs[i], names, o)),
        Tri("C20.validates", \A i \in 1..Len(c.valid) : c.valid[i]),
        \* accepted by the binary and container writers and can be read back ...
        Tri("C20.writable", /\ \A i \in 1..Len(vs) : c.rts[i].ok /\ c.rts[i].back.ok
                            /\ c.filerecs.ok /\ Len(c.filerecs.recs) = Len(vs)),
        \* a generated value names every field: the writers' strict mode takes it too, and writes the same bytes
        IF HasMultiRecordUnion(t, names, {}) THEN Cl("C20.writable_strict", "unspec")
        ELSE Tri("C20.writable_strict",
                 \A i \in 1..Len(vs) :
                    (c.rts[i].ok /\ Conforms(t, vs[i], names, [strict |-> FALSE, tuples |-> TRUE, wmode |-> "strict"]))
                      => (c.rts[i].strict.ok /\ c.rts[i].strict.bytes = c.rts[i].bytes)),
        \* ... as the value itself, wherever the spec defines what reading returns
        IF \E i \in 1..Len(vs) : ~Conforms(t, vs[i], names, o) \/ ~c.rts[i].ok \/ ~c.rts[i].back.ok \/ ~c.filerecs.ok THEN Cl("C20.readback", "skip")
        ELSE Tri("C20.readback", \A i \in 1..Len(vs) : nrm[i].ok => (VEq(c.rts[i].back.v, nrm[i].v) /\ VEq(c.filerecs.recs[i], nrm[i].v))) >>
=============================================================================
