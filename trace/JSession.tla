------------------------------ MODULE JSession ------------------------------
(* Judge for API-call histories (C17): every call of a history must give the  *)
(* result the same call gives as the first call of a fresh interpreter, and   *)
(* must leave its schema / data arguments as they were.                       *)
EXTENDS Naturals, Sequences, SequencesExt, FiniteSets, TLC, JCommon

\* op = "session": c.calls << [name, res, fresh, args_before, args_after] >>  (res / fresh / args_*: projected outcomes, compared structurally)
FirstBad(c, P(_)) == LET S == { k \in 1..Len(c.calls) : ~P(c.calls[k]) } IN
                     IF S = {} THEN 0 ELSE CHOOSE k \in S : \A j \in S : k <= j
Judge_session(c) ==
  LET leak == FirstBad(c, LAMBDA e : e.res = e.fresh /\ e.res.must)        \* must: a condition the call checks on its own result (e.g. interleaved = sequential)
      mut == FirstBad(c, LAMBDA e : e.args_before = e.args_after)
  IN << IF leak = 0 THEN Cl("C17.fresh", "ok") ELSE Cl("C17.fresh@" \o c.calls[leak].name, "fail"),
        IF mut = 0 THEN Cl("C17.args_intact", "ok") ELSE Cl("C17.args_intact@" \o c.calls[mut].name, "fail") >>
=============================================================================
