------------------------------ MODULE JResolve ------------------------------
(* Judge for reads with a reader schema (C08).                                *)
EXTENDS Naturals, Integers, Sequences, SequencesExt, FiniteSets, TLC, JCommon, AvroResolve

\* (name, value) pairs removed: what reading with named-type reporting returns, minus the reporting
RECURSIVE StripPairs(_)
StripPairs(v) ==
  CASE v.p = "tuple" /\ Len(v.it) = 2 /\ v.it[1].p = "str" -> StripPairs(v.it[2])
    [] v.p \in {"list", "tuple"} -> [v EXCEPT !.it = MapSeq(StripPairs, v.it)]
    [] v.p = "dict" -> [v EXCEPT !.vs = MapSeq(StripPairs, v.vs)]
    [] OTHER -> v

IsResErr(x) == ~x.ok /\ (\E i \in 1..Len(x.exc) : x.exc[i] = "SchemaResolutionError")

\* op = "resolve": c.w, c.r (raw schemas), c.datum, c.bytes (written under w), c.sl [ok, v, pos | exc] schemaless_reader(fo, w, r),
\*   c.file [ok, recs | exc] reader(fo, reader_schema=r) on a container holding the datum, c.equal (r is a deep copy of w)
Judge_resolve(c) ==
  LET W == Parse(c.w)
      R == Parse(c.r)
  IN IF ~W.ok THEN << Cl("H.schema", "fail") >>
     ELSE IF ~R.ok THEN << Cl("C08.value", "skip") >>            \* the derived reader schema is itself invalid: not this property's business
     ELSE IF "perr" \in DOMAIN c THEN << Cl("C11.accept", "fail"), Cl("C08.value.schemaless", "fail") >>
     ELSE
     LET o == Opts0
         enc == Encode(W.t, c.datum, W.st.names, o)
     IN IF ~Conforms(W.t, c.datum, W.st.names, o) THEN << Cl("H.conforms", "fail") >>
        ELSE IF ~enc.ok \/ enc.b # c.bytes THEN << Cl("C08.value", "skip") >>      \* the input was not written as the spec prescribes (C02's business)
        ELSE
        LET x == Resolve(W.t, R.t, c.bytes, W.st.names, R.st.names)
            plain == Decode(W.t, c.bytes, W.st.names)
        IN IF x.st = "unspec" THEN << Cl("C08.value", "unspec") >>
           ELSE IF x.st = "raise" THEN
                << Tri("C08.reject.schemaless", IsResErr(c.sl)), Tri("C08.reject.container", IsResErr(c.file)),
                   IF "blocks" \in DOMAIN c THEN Tri("C08.reject.block_reader", IsResErr(c.blocks)) ELSE Cl("C08.reject.block_reader", "skip") >>
           ELSE IF x.st # "ok" THEN << Cl("S.resolve", "fail") >>
           ELSE << Tri("C08.value.schemaless", c.sl.ok /\ VEq(c.sl.v, x.v) /\ c.sl.pos = Len(c.bytes)),
                   Tri("C08.value.container", c.file.ok /\ Len(c.file.recs) = 1 /\ VEq(c.file.recs[1], x.v)),
                   \* with a reader schema equal to the writer schema the result is what reading without one returns
                   \* the block reader resolves like the record reader
                   IF "blocks" \notin DOMAIN c THEN Cl("C08.value.block_reader", "skip")
                   ELSE Tri("C08.value.block_reader", c.blocks.ok /\ Len(c.blocks.recs) = 1 /\ VEq(c.blocks.recs[1], x.v)),
                   \* the reporting options do not change what is resolved: same value once the (name, value) pairs are taken away
                   IF "named" \notin DOMAIN c THEN Cl("C08.value.named_options", "skip")
                   ELSE Tri("C08.value.named_options", /\ c.named.ok /\ VEq(StripPairs(c.named.v), x.v)
                                                       /\ c.recname.ok /\ VEq(StripPairs(c.recname.v), x.v)),
                   \* (two named types with one simple name: matching is by unqualified name, the identity is not to be had)
                   IF c.equal /\ ~(\E a, b \in DOMAIN W.st.names : a # b /\ Unqual(a) = Unqual(b))
                   THEN Tri("S.identity", plain.st = "ok" /\ VEq(plain.v, x.v)) ELSE Cl("S.identity", "skip"),
                   Tri("S.alignment", x.p = Len(c.bytes) + 1) >>
=============================================================================
