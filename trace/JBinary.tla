------------------------------ MODULE JBinary ------------------------------
(* Judges for schemaless binary writer / reader events (C01, C02, C03, C09). *)
EXTENDS Naturals, Integers, Sequences, SequencesExt, FiniteSets, TLC, JCommon, AvroBinary

OptsOf(c) == [strict |-> FALSE, tuples |-> c.tuples]

\* op = "sl_rt": data written back to back on one stream, then read back one by one
\*  c.schema (raw), c.data <<V>>, c.tuples, c.writes << [ok, bytes] | [ok, exc] >>, c.reads << [ok, v, pos] | [ok, exc] >>
RECURSIVE SumLen(_, _)
SumLen(ws, k) == IF k = 0 THEN 0 ELSE SumLen(ws, k - 1) + Len(ws[k].bytes)

JudgeRtOne(c, P, k) ==
  LET t == P.t
      names == P.st.names
      o == OptsOf(c)
      d == c.data[k]
      w == c.writes[k]
      r == c.reads[k]
      conf == Conforms(t, d, names, o)
      enc == Encode(t, d, names, o)
      nrm == Norm(t, d, names, o)
      dec == IF w.ok THEN Decode(t, w.bytes, names) ELSE [st |-> "none"]
      expected == IF nrm.ok THEN nrm.v ELSE dec.v
  IN IF ~conf THEN << Cl("H.conforms", "fail") >>
     ELSE IF ~w.ok THEN << Cl("C02.bytes", "fail"), Cl("C01.value", "fail") >>
     ELSE IF ~enc.ok /\ enc.why = "unspec" /\ "amb" \in DOMAIN enc /\ enc.amb = "bytes-array"
          THEN << Cl("C02.bytes", "unspec"), Cl("C09.index", "unspec"), Cl("C01.value", "unspec") >>
     ELSE << Tri("C02.bytes", MatchCanon(t, d, w.bytes, names, o)),
             IF enc.ok THEN Tri("C09.index", enc.b = w.bytes)
             ELSE IF enc.why = "unspec" THEN Cl("C09.index", "unspec") ELSE Cl("S.encode", "fail"),
             \* the spec's own decoder must agree with the spec's normal form (self-consistency of the spec)
             IF dec.st = "ok" /\ nrm.ok /\ enc.ok /\ enc.b = w.bytes THEN Tri("S.selfdec", VEq(dec.v, nrm.v) /\ dec.p = Len(w.bytes) + 1)
             ELSE Cl("S.selfdec", "skip"),
             IF ~nrm.ok /\ dec.st # "ok" THEN Cl("C01.value", "unspec")
             ELSE Tri("C01.value", r.ok /\ VEq(r.v, expected)),
             IF r.ok THEN Tri("C01.pos", r.pos = SumLen(c.writes, k)) ELSE Cl("C01.pos", "fail"),
             \* (C16's cases: a logical value offered to a union whose earlier branches are plain types it must not be taken for)
             IF "c16" \notin DOMAIN c THEN Cl("C16.in_union", "skip")
             ELSE IF ~nrm.ok THEN Cl("C16.in_union", "unspec")
             ELSE Tri("C16.in_union", MatchCanon(t, d, w.bytes, names, o) /\ r.ok /\ VEq(r.v, nrm.v)) >>

Judge_sl_rt(c) ==
  LET P == Parse(c.schema) IN
  IF ~P.ok THEN << Cl("H.schema", "fail") >>
  ELSE IF "perr" \in DOMAIN c THEN << Cl("C11.accept", "fail"), Cl("C01.value", "fail"), Cl("C02.bytes", "fail") >>     \* fastavro rejected a schema the spec accepts
  ELSE IF \E k \in 1..Len(c.writes) : ~c.writes[k].ok
       THEN LET k == CHOOSE k \in 1..Len(c.writes) : ~c.writes[k].ok IN
            IF Conforms(P.t, c.data[k], P.st.names, OptsOf(c))
            THEN << Cl("C02.bytes", "fail"), Cl("C01.value", "fail"),
                    IF "c16" \in DOMAIN c THEN Cl("C16.in_union", "fail") ELSE Cl("C16.in_union", "skip") >>
            ELSE << Cl("H.conforms", "fail") >>
  ELSE Concat([k \in 1..Len(c.data) |-> JudgeRtOne(c, P, k)])
=============================================================================
