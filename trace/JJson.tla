-------------------------------- MODULE JJson --------------------------------
(* Judge for json_writer / json_reader events (C15).                          *)
EXTENDS Naturals, Integers, Sequences, SequencesExt, FiniteSets, TLC, JCommon, AvroJson

\* op = "json": c.schema, c.records <<V>>, c.wut, c.write [ok, docs <<JSON tree>>] | [ok |-> FALSE, exc],
\*   c.read [ok, recs] (json_reader over the written text), c.dropped <<V>> (records with the top-level defaulted fields removed),
\*   c.readdrop [ok, recs] (json_reader over the text with those keys deleted)
Judge_json(c) ==
  LET P == Parse(c.schema) IN
  IF ~P.ok THEN << Cl("H.schema", "fail") >>
  ELSE IF "perr" \in DOMAIN c THEN << Cl("C11.accept", "fail"), Cl("C15.enc", "fail") >>
  ELSE
  LET t == P.t
      names == P.st.names
      o == Opts0
      n == Len(c.records)
      enc == MapSeq(LAMBDA d : JsonEnc(t, d, names, o, c.wut), c.records)
      nrm == MapSeq(LAMBDA d : NormJ(t, d, names, o), c.records)          \* what the JSON text carries
      bin == MapSeq(LAMBDA d : Norm(t, d, names, o), c.records)           \* what the binary decode returns
  IN IF \E i \in 1..n : ~Conforms(t, c.records[i], names, o) THEN << Cl("H.conforms", "fail") >>
     ELSE IF \E i \in 1..n : ~enc[i].ok \/ ~nrm[i].ok THEN << Cl("C15.enc", "unspec") >>
     ELSE IF ~c.write.ok THEN << Cl("C15.enc", "fail") >>
     ELSE << Tri("C15.enc", Len(c.write.docs) = n /\ \A i \in 1..n : JEq(c.write.docs[i], enc[i].j)),
             \* json_reader applied to that text with the same schema returns the written records; numbers by value (= the binary decode, Norm)
             IF ~c.wut THEN Cl("C15.roundtrip", "skip")
             ELSE Tri("C15.roundtrip", c.read.ok /\ Len(c.read.recs) = n /\ \A i \in 1..n : VEqN(c.read.recs[i], nrm[i].v)),
             \* records decoded from JSON equal, numbers by value, those decoded from binary - wherever no rounding to binary32/64 intervenes
             IF ~c.wut \/ ~c.read.ok \/ Len(c.read.recs) # n THEN Cl("C15.binary", "skip")
             ELSE IF \E i \in 1..n : ~bin[i].ok \/ ~VEqN(bin[i].v, nrm[i].v) THEN Cl("C15.binary", "unspec")
             ELSE Tri("C15.binary", \A i \in 1..n : VEqN(c.read.recs[i], bin[i].v)),
             IF ~c.wut \/ Len(c.dropped) = 0 THEN Cl("C15.defaults", "skip")
             ELSE LET nd == MapSeq(LAMBDA d : NormJ(t, d, names, o), c.dropped) IN
                  IF \E i \in 1..Len(nd) : ~nd[i].ok THEN Cl("C15.defaults", "unspec")
                  ELSE Tri("C15.defaults", c.readdrop.ok /\ Len(c.readdrop.recs) = n
                                           /\ \A i \in 1..n : VEqN(c.readdrop.recs[i], nd[i].v)) >>
=============================================================================
