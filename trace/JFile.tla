------------------------------- MODULE JFile -------------------------------
(* Judges for container-file events (C04, C05).                              *)
EXTENDS Naturals, Integers, Sequences, SequencesExt, FiniteSets, TLC, JCommon, AvroCanon, AvroFile

VEqSeq(a, b) == Len(a) = Len(b) /\ \A i \in 1..Len(a) : VEq(a[i], b[i])
SumCounts(bs) == FoldLeft(LAMBDA acc, b : acc + b.n, 0, bs)
Subset(xs, S) == \A i \in 1..Len(xs) : xs[i] \in S

\* supplied metadata (dict text -> text, as code points) is contained in reported metadata (same shape)
MetaIn(sup, rep) == \A i \in 1..Len(sup.ks) : \E j \in 1..Len(rep.ks) : rep.ks[j] = sup.ks[i] /\ rep.vs[j] = sup.vs[i]
\* ... and in the header's metadata (dict str -> bytes)
MetaInHeader(sup, meta) ==
  \A i \in 1..Len(sup.ks) : HasKey(meta, sup.ks[i]) /\ ValAt(meta, sup.ks[i]).by = Utf8Enc(sup.vs[i])
HasMetaKey(rep, k) == \E j \in 1..Len(rep.ks) : rep.ks[j] = k

\* op = "file_rt"
Judge_file_rt(c) ==
  LET P == Parse(c.schema) IN
  IF ~P.ok THEN << Cl("H.schema", "fail") >>
  ELSE IF "perr" \in DOMAIN c THEN << Cl("C11.accept", "fail"), Cl("C04.write", "fail"), Cl("C05.layout", "fail") >>
  ELSE
  LET t == P.t
      names == P.st.names
      o == [strict |-> FALSE, tuples |-> TRUE]
      nrm == MapSeq(LAMBDA d : Norm(t, d, names, o), c.records)
      dom == \A i \in 1..Len(c.records) : Conforms(t, c.records[i], names, o)
  IN IF ~dom THEN << Cl("H.conforms", "fail") >>
     ELSE IF \E i \in 1..Len(nrm) : ~nrm[i].ok THEN << Cl("C04.records", "unspec"), Cl("C05.layout", "unspec") >>
     ELSE IF ~c.wrote.ok THEN << Cl("C04.records", "fail"), Cl("C04.write", "fail") >>
     ELSE
     LET expected == MapSeq(LAMBDA r : r.v, nrm)
         pf == ParseFile(c.file, c.hs, c.inflate)
         rd == c.read
         ct == CanonTree(t)
     IN << \* ---- C05: the file has the specification's layout; an independent parser recovers the records
           IF ~pf.ok /\ pf.why \in {"H.schematext", "H.inflate"} THEN Cl(pf.why, "fail")
           ELSE Tri("C05.layout", pf.ok /\ VEqSeq(pf.records, expected)),
           \* the same fact read as C02's: every block payload is exactly the concatenation of the records' encodings (nothing else in it)
           IF ~pf.ok /\ pf.why \in {"H.schematext", "H.inflate"} THEN Cl("C02.payload", "skip")
           ELSE Tri("C02.payload", pf.ok /\ VEqSeq(pf.records, expected)),
           IF pf.ok THEN Tri("H.walker", Len(c.walk) = Len(pf.blocks) /\ c.hend = pf.hend - 1
                                          /\ \A i \in 1..Len(c.walk) : c.walk[i] = <<pf.blocks[i].off, pf.blocks[i].size, pf.blocks[i].count>>)
           ELSE Cl("H.walker", "skip"),
           When("C05.sync", pf.ok /\ c.sync # <<>>, pf.sync = c.sync),
           When("C05.tile", pf.ok /\ c.br.ok,
                /\ Len(c.br.blocks) = Len(pf.blocks)
                /\ \A i \in 1..Len(pf.blocks) : /\ c.br.blocks[i].off = pf.blocks[i].off
                                                /\ c.br.blocks[i].size = pf.blocks[i].size
                                                /\ c.br.blocks[i].n = pf.blocks[i].count
                                                /\ VEqSeq(c.br.blocks[i].recs, pf.blocks[i].recs)
                /\ Tiles(c.br.blocks, pf.hend, Len(c.file))
                /\ SumCounts(c.br.blocks) = Len(expected)),
           IF c.br.ok THEN Cl("C05.blockreader", "ok") ELSE Cl("C05.blockreader", "fail"),
           \* ---- C04: the reader given nothing but the file yields the records, schema, codec, metadata
           Tri("C04.records", rd.ok /\ VEqSeq(rd.recs, expected)),
           \* (a null-namespace type nested in a namespaced one keeps its "namespace": "" in the parsed form - repaired defect, see known_findings)
           When("C04.schema", rd.ok, LET R == Parse(rd.wschema) IN R.ok /\ CanonTree(R.t) = ct),
           When("C04.selfdesc", pf.ok, CanonTree(pf.t) = ct),
           When("C04.codec", rd.ok /\ pf.ok, rd.codec = c.codec /\ pf.codec = c.codec),
           When("C04.meta", rd.ok /\ pf.ok, /\ MetaIn(c.meta, rd.meta) /\ MetaInHeader(c.meta, pf.meta)
                                           /\ HasMetaKey(rd.meta, K_avro_schema) /\ HasMetaKey(rd.meta, K_avro_codec)),
           \* ---- C04: stream interface actually used
           When("C04.pipeout", c.kind_out = "pipe", Subset(c.calls_out, {"write", "flush", "seekable"})),
           When("C04.seqin", c.kind_in = "seq", rd.ok /\ Subset(c.calls_in, {"read"})) >>

\* op = "file_ind": a file assembled from the spec's independent writer (GenFile) is offered to reader and block_reader
\*  c.file, c.hs, c.inflate, c.expect <<V>> (from GenFile), c.read [ok, recs, codec], c.br [ok, blocks]
Judge_file_ind(c) ==
  LET pf == ParseFile(c.file, c.hs, c.inflate) IN
  IF ~pf.ok \/ ("expect" \in DOMAIN c /\ ~VEqSeq(pf.records, c.expect)) THEN << Cl("H.assembly", "fail") >>   \* the offered file must itself be layout-valid
  ELSE << Tri("C05.accept.reader", c.read.ok /\ VEqSeq(c.read.recs, pf.records)),
          When("C05.accept.codec", c.read.ok, c.read.codec = pf.codec),
          Tri("C05.accept.block_reader",
              /\ c.br.ok /\ Len(c.br.blocks) = Len(pf.blocks)
              /\ \A i \in 1..Len(pf.blocks) : /\ c.br.blocks[i].off = pf.blocks[i].off /\ c.br.blocks[i].size = pf.blocks[i].size
                                              /\ c.br.blocks[i].n = pf.blocks[i].count /\ VEqSeq(c.br.blocks[i].recs, pf.blocks[i].recs)
              /\ Tiles(c.br.blocks, pf.hend, Len(c.file)) /\ SumCounts(c.br.blocks) = Len(pf.records)) >>

\* op = "is_avro": c.data bytes, c.result BOOLEAN | c.raised
Judge_is_avro(c) ==
  << Tri("C05.magic", c.ok /\ (c.result <=> (Len(c.data) >= 4 /\ SubSeq(c.data, 1, 4) = Magic))) >>

\* ---- C06: truncated and sync-corrupted files -----------------------------------------------------
\* op = "cuts": c.file, c.hs, c.inflate; c.pool <<V>> (distinct projected records seen);
\*   c.cuts  << <<k, ended (0|1), ys>> >>  outcome of fastavro.reader on file[0..k)   (ys = pool indices of the records yielded, in order)
\*   c.bcuts same for block_reader;  c.corr << <<b, i, ended, ys>> >> reader on the file with byte i of block b's sync marker altered
\*   c.bcorr same for block_reader
CumCounts(blocks) == FoldLeft(LAMBDA acc, b : Append(acc, (IF acc = <<>> THEN 0 ELSE acc[Len(acc)]) + b.count), <<>>, blocks)

Judge_cuts(c) ==
  LET pf == ParseFile(c.file, c.hs, c.inflate) IN
  IF ~pf.ok THEN << Cl("H.file", "fail") >>
  ELSE
  LET recs == pf.records
      nb == Len(pf.blocks)
      cum == CumCounts(pf.blocks)
      bnd == Boundaries(pf)
      \* okAt[p] = positions j at which pool[p] equals the j-th written record
      okAt == MapSeq(LAMBDA pv : { j \in 1..Len(recs) : VEq(pv, recs[j]) }, c.pool)
      IsPrefixOfWritten(ys) == Len(ys) <= Len(recs) /\ \A j \in 1..Len(ys) : j \in okAt[ys[j]]
      \* number of records in the blocks that end at or before offset k
      Before(k) == LET S == { i \in 1..nb : pf.blocks[i].off + pf.blocks[i].size <= k } IN
                   IF S = {} THEN 0 ELSE cum[CHOOSE i \in S : \A j \in S : j <= i]
      CutOk(e) == LET k == e[1] ended == e[2] = 1 ys == e[3] IN
                  /\ IsPrefixOfWritten(ys)
                  /\ (ended => k \in bnd)
                  /\ (k < pf.hend - 1 => ~ended /\ Len(ys) = 0)
      BoundaryOk(e) == LET k == e[1] ended == e[2] = 1 ys == e[3] IN
                       (k \in bnd) => (ended /\ Len(ys) = Before(k) /\ IsPrefixOfWritten(ys))
      CorrOk(e) == LET b == e[1] ended == e[3] = 1 ys == e[4] IN
                   /\ ~ended
                   /\ IsPrefixOfWritten(ys)
                   /\ Len(ys) <= cum[b]
      AllOk(Op(_), es) == \A i \in 1..Len(es) : Op(es[i])
      FirstBad(Op(_), es) == LET S == { i \in 1..Len(es) : ~Op(es[i]) } IN CHOOSE i \in S : \A j \in S : i <= j
      Rep(name, Op(_), es) == IF Len(es) = 0 THEN Cl(name, "skip")
                              ELSE IF AllOk(Op, es) THEN Cl(name, "ok")
                              ELSE Cl(name \o "@" \o ToString(FirstBad(Op, es)), "fail")
  IN << Rep("C06.cut.reader", CutOk, c.cuts), Rep("C06.cut.block_reader", CutOk, c.bcuts),
        Rep("C05.boundary.reader", BoundaryOk, c.cuts), Rep("C05.boundary.block_reader", BoundaryOk, c.bcuts),
        Rep("C06.sync.reader", CorrOk, c.corr), Rep("C06.sync.block_reader", CorrOk, c.bcorr) >>
=============================================================================
