------------------------------- MODULE JForms -------------------------------
(* Judge for C12: every public operation under the raw, the parsed and the    *)
(* piecewise-parsed form of one schema.                                       *)
EXTENDS Naturals, Integers, Sequences, SequencesExt, FiniteSets, TLC, JCommon, AvroCanon, AvroFile, AvroJson, AvroResolve

\* op = "forms": c.schema (monolithic raw), c.datum, c.forms << [form, sl [ok, bytes], slread [ok, v], file [ok, file, hs, inflate],
\*   fileread [ok, recs], json [ok, docs], jsonread [ok, recs], validate [ok, v], canon [ok, text], gen [ok, values], identity] >>
JudgeForm(c, P, f) ==
  LET t == P.t
      names == P.st.names
      o == Opts0
      d == c.datum
      enc == Encode(t, d, names, o)
      nrm == Norm(t, d, names, o)
      jenc == JsonEnc(t, d, names, o, TRUE)
      nrmj == NormJ(t, d, names, o)
      pf == IF f.file.ok THEN ParseFile(f.file.file, f.file.hs, f.file.inflate) ELSE [ok |-> FALSE, why |-> "notwritten"]
      tag(nm) == nm \o "." \o f.form
      gen0 == c.forms[1].gen
  IN IF ~enc.ok \/ ~nrm.ok THEN << Cl(tag("C12.same"), "unspec") >>
     ELSE << Tri(tag("C12.binary_write"), f.sl.ok /\ f.sl.bytes = enc.b),
             Tri(tag("C12.binary_read"), f.slread.ok /\ VEq(f.slread.v, nrm.v)),
             \* a container file written under this form is readable on its own: its header schema parses by itself and describes the records
             Tri(tag("C12.selfcontained"), pf.ok /\ Len(pf.records) = 1 /\ VEq(pf.records[1], nrm.v) /\ CanonTree(pf.t) = CanonTree(t)),
             Tri(tag("C12.container_read"), f.fileread.ok /\ Len(f.fileread.recs) = 1 /\ VEq(f.fileread.recs[1], nrm.v)),
             IF ~jenc.ok THEN Cl(tag("C12.json"), "unspec")
             ELSE IF c.json_known THEN Cl(tag("C12.json"), "skip")          \* schema classes on which the JSON codec has a recorded finding (C15)
             ELSE Tri(tag("C12.json"), f.json.ok /\ Len(f.json.docs) = 1 /\ JEq(f.json.docs[1], jenc.j)
                                       /\ f.jsonread.ok /\ Len(f.jsonread.recs) = 1 /\ nrmj.ok /\ VEqN(f.jsonread.recs[1], nrmj.v)),
             \* keys absent from the JSON text take the defaults of the schema, under every form
             IF "dropped" \notin DOMAIN c \/ ~jenc.ok \/ c.json_known THEN Cl(tag("C12.json_defaults"), "skip")
             ELSE LET nd == NormJ(t, c.dropped, names, o) IN
                  IF ~nd.ok THEN Cl(tag("C12.json_defaults"), "unspec")
                  ELSE Tri(tag("C12.json_defaults"), f.jsondrop.ok /\ Len(f.jsondrop.recs) = 1 /\ VEqN(f.jsondrop.recs[1], nd.v)),
             \* reading with a reader schema (derived by compatible evolution steps), writer and reader both in this form
             IF "rschema" \notin DOMAIN c \/ "resolve" \notin DOMAIN f THEN Cl(tag("C12.resolve"), "skip")
             ELSE LET R == Parse(c.rschema) IN
                  IF ~R.ok \/ c.wbytes # enc.b THEN Cl(tag("C12.resolve"), "skip")
                  \* two named types with one simple name: resolution matches by unqualified name, which of them is meant is not pinned
                  ELSE IF \E a, b \in DOMAIN names \cup DOMAIN R.st.names : a # b /\ Unqual(a) = Unqual(b) THEN Cl(tag("C12.resolve"), "unspec")
                  ELSE LET x == Resolve(t, R.t, c.wbytes, names, R.st.names) IN
                       IF x.st = "ok" THEN Tri(tag("C12.resolve"), f.resolve.ok /\ VEq(f.resolve.v, x.v) /\ f.resolve.pos = Len(c.wbytes))
                       ELSE IF x.st = "raise" THEN Tri(tag("C12.resolve"), ~f.resolve.ok /\ \E i \in 1..Len(f.resolve.exc) : f.resolve.exc[i] = "SchemaResolutionError")
                       ELSE Cl(tag("C12.resolve"), "unspec"),
             \* ... and the same through the JSON reader (numbers by value)
             IF "rschema" \notin DOMAIN c \/ "jsonresolve" \notin DOMAIN f \/ c.json_known \/ ~jenc.ok THEN Cl(tag("C12.json_resolve"), "skip")
             ELSE LET R == Parse(c.rschema) IN
                  IF ~R.ok \/ c.wbytes # enc.b THEN Cl(tag("C12.json_resolve"), "skip")
                  ELSE IF \E a, b \in DOMAIN names \cup DOMAIN R.st.names : a # b /\ Unqual(a) = Unqual(b) THEN Cl(tag("C12.json_resolve"), "unspec")
                  \* (the JSON text carries the numbers as given, the binary form rounds them to the branch's width: compared where both agree)
                  ELSE IF ~nrmj.ok \/ ~VEqN(nrmj.v, nrm.v) THEN Cl(tag("C12.json_resolve"), "unspec")
                  ELSE LET x == Resolve(t, R.t, c.wbytes, names, R.st.names) IN
                       IF x.st = "ok" THEN Tri(tag("C12.json_resolve"), f.jsonresolve.ok /\ Len(f.jsonresolve.recs) = 1 /\ VEqN(f.jsonresolve.recs[1], x.v))
                       ELSE IF x.st = "raise" THEN Tri(tag("C12.json_resolve"), ~f.jsonresolve.ok)
                       ELSE Cl(tag("C12.json_resolve"), "unspec"),
             Tri(tag("C12.validate"), f.validate.ok /\ f.validate.v = [p |-> "bool", b |-> TRUE]),
             Tri(tag("C12.canon"), f.canon.ok /\ f.canon.text = CanonText(CanonTree(t))),
             \* data generation under a fixed state of the random source gives the same values under every form
             IF ~gen0.ok THEN Cl(tag("C12.generate"), "skip")
             ELSE Tri(tag("C12.generate"), f.gen.ok /\ Len(f.gen.values) = Len(gen0.values)
                                           /\ \A i \in 1..Len(gen0.values) : VEq(f.gen.values[i], gen0.values[i])),
             IF f.form = "parsed" THEN Tri("C12.identity", f.identity) ELSE Cl("C12.identity", "skip") >>

Judge_forms(c) ==
  LET P == Parse(c.schema) IN
  IF ~P.ok THEN << Cl("H.schema", "fail") >>
  ELSE IF "perr" \in DOMAIN c THEN << Cl("C11.accept", "fail"), Cl("C12.binary_write.raw", "fail") >>
  ELSE IF ~Conforms(P.t, c.datum, P.st.names, Opts0) THEN << Cl("H.conforms", "fail") >>
  ELSE Concat(MapSeq(LAMBDA f : JudgeForm(c, P, f), c.forms))
       \* the caller's dictionary after parsing (whole, or piece by piece) holds exactly the names the specification defines
       \o << Tri("C12.dictionary.whole", { c.dict_mono[i] : i \in 1..Len(c.dict_mono) } = DOMAIN P.st.names),
             \* the pieces parse against the shared dictionary at all (whichever way they were registered)
             IF "piecewise_error" \in DOMAIN c THEN Cl("C12.piecewise_parse", "fail")
             ELSE IF "dict_after" \in DOMAIN c THEN Cl("C12.piecewise_parse", "ok") ELSE Cl("C12.piecewise_parse", "skip"),
             IF "dict_after" \in DOMAIN c
             THEN Tri("C12.dictionary.piecewise", { c.dict_after[i] : i \in 1..Len(c.dict_after) } = DOMAIN P.st.names)
             ELSE Cl("C12.dictionary.piecewise", "skip") >>
=============================================================================
