------------------------------ MODULE JCommon ------------------------------
(* Shared by all judges of logged cases (V direction).  A judge returns a    *)
(* sequence of strings "<clause>=<verdict>", verdict in ok fail unspec skip. *)
EXTENDS Naturals, Sequences, TLC

Cl(name, verdict) == name \o "=" \o verdict
Tri(name, cond) == Cl(name, IF cond THEN "ok" ELSE "fail")
\* verdict by cases: guard false -> skip
When(name, guard, cond) == IF guard THEN Tri(name, cond) ELSE Cl(name, "skip")
=============================================================================
