-------------------------------- MODULE JSuite --------------------------------
(* Judges for calls logged while the repository's own test-suite runs          *)
(* (harness/suite_plugin.py): the suite supplies the inputs, the spec supplies  *)
(* the assertions.  Inputs are arbitrary, so every judge first checks that the  *)
(* call lies in the domain of a property; otherwise the verdict is "skip".      *)
EXTENDS Naturals, Integers, Sequences, SequencesExt, FiniteSets, TLC, JCommon, AvroCanon, AvroFile, AvroResolve, JData

Skip(n) == << Cl(n, "skip") >>
\* values of Python types outside the documented mapping (numpy numbers, results of user-registered logical types): Unspecified
RECURSIVE HasOther(_)
HasOther(v) == CASE v.p = "other" -> TRUE
                 [] v.p \in {"list", "tuple"} -> \E i \in 1..Len(v.it) : HasOther(v.it[i])
                 [] v.p = "dict" -> \E i \in 1..Len(v.vs) : HasOther(v.vs[i]) \/ HasOther(v.ks[i])
                 [] OTHER -> FALSE

Judge_t_sl_write(c) ==
  LET P == Parse(c.schema) IN
  IF ~P.ok \/ c.kw.strict \/ c.kw.strict_allow_default \/ HasOther(c.datum) THEN Skip("C02.suite")
  ELSE LET o == [strict |-> FALSE, tuples |-> c.kw.tuples]
           t == P.t
           names == P.st.names
       IN IF ~Conforms(t, c.datum, names, o) \/ Ambiguous(t, c.datum, names) THEN Skip("C02.suite")
          ELSE LET e == Encode(t, c.datum, names, o) IN
               IF ~e.ok THEN << Cl("C02.suite", "unspec") >>
               ELSE << Tri("C02.suite", c.ok /\ MatchCanon(t, c.datum, c.bytes, names, o)),
                       Tri("C09.suite", c.ok /\ c.bytes = e.b) >>

Judge_t_sl_read(c) ==
  LET W == Parse(c.w) IN
  IF ~W.ok \/ HasOther(c.v) THEN Skip("C03.suite")
  ELSE IF ~c.has_r THEN
       LET d == Decode(W.t, c.bytes, W.st.names) IN
       IF d.st = "unspec" THEN << Cl("C03.suite", "unspec") >>
       ELSE << Tri("C03.suite", d.st = "ok" /\ VEq(c.v, d.v) /\ d.p = Len(c.bytes) + 1) >>
  ELSE LET R == Parse(c.r) IN
       IF ~R.ok THEN Skip("C08.suite")
       ELSE LET x == Resolve(W.t, R.t, c.bytes, W.st.names, R.st.names) IN
            IF x.st = "unspec" THEN << Cl("C08.suite", "unspec") >>
            ELSE << Tri("C08.suite", x.st = "ok" /\ VEq(c.v, x.v) /\ x.p = Len(c.bytes) + 1) >>

Judge_t_validate(c) ==
  LET P == Parse(c.schema) IN
  IF ~P.ok \/ HasOther(c.datum) THEN Skip("C10.suite")
  ELSE LET o == [strict |-> c.strict, tuples |-> c.tuples]
           conf == Conforms(P.t, c.datum, P.st.names, o)
       IN IF Ambiguous(P.t, c.datum, P.st.names) THEN << Cl("C10.suite", "unspec") >>
          ELSE IF c.raise_errors
               THEN << Tri("C10.suite", IF conf THEN c.res.ok /\ c.res.v = [p |-> "bool", b |-> TRUE] ELSE IsValErr(c.res)) >>
               ELSE << Tri("C10.suite", c.res.ok /\ c.res.v = [p |-> "bool", b |-> conf]) >>

Judge_t_canon(c) ==
  LET P == Parse(c.schema) IN
  IF ~P.ok THEN Skip("C13.suite") ELSE << Tri("C13.suite", c.text = CanonText(CanonTree(P.t))) >>

Judge_t_file(c) ==
  LET P == Parse(c.schema) IN
  IF ~P.ok THEN Skip("C05.suite")
  ELSE LET t == P.t
           names == P.st.names
           nrm == MapSeq(LAMBDA d : IF Conforms(t, d, names, Opts0) /\ ~Ambiguous(t, d, names) THEN Norm(t, d, names, Opts0) ELSE [ok |-> FALSE], c.records)
       IN IF \E i \in 1..Len(nrm) : ~nrm[i].ok THEN Skip("C05.suite")
          ELSE LET pf == ParseFile(c.file, c.hs, c.inflate) IN
               IF ~pf.ok /\ pf.why \in {"H.inflate", "H.schematext"} THEN Skip("C05.suite")
               ELSE << Tri("C05.suite", pf.ok /\ Len(pf.records) = Len(nrm) /\ \A i \in 1..Len(nrm) : VEq(pf.records[i], nrm[i].v)) >>
=============================================================================
