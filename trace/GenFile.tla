------------------------------ MODULE GenFile ------------------------------
(* G direction for C05: the spec acts as an independent container writer.    *)
EXTENDS Naturals, Integers, Sequences, TLC, Json, IOUtils, AvroFileGen

CasesIn == ndJsonDeserialize(IOEnv.CASES)
NCases == Len(CasesIn)

Gen(c) == GenFile(c.stext, c.stree, c.records, c.codec, c.codeckey, c.usermeta, c.sync, c.choices)

\* NOTE on the variable's name: a state variable that shares its name with bound variables / operator parameters of the extended
\* modules (i, s, c, d ...) makes TLC treat those expressions as state-level and stop caching lazily evaluated values
\* (measured: 240 s instead of 3 s for one 200-element array). Hence the unusual name.
VARIABLE casepos
Init == casepos = 1
Next == /\ casepos <= NCases
        /\ PrintT(<<"B", CasesIn[casepos].id>>)
        /\ PrintT(<<"G", CasesIn[casepos].id, ToJson(Gen(CasesIn[casepos]))>>)
        /\ casepos' = casepos + 1
AllJudged == TLCGet("stats").diameter - 1 = NCases
=============================================================================
