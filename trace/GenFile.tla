------------------------------ MODULE GenFile ------------------------------
(* G direction for C05: the spec acts as an independent container writer.    *)
EXTENDS Naturals, Integers, Sequences, TLC, Json, IOUtils, AvroFileGen

CasesIn == ndJsonDeserialize(IOEnv.CASES)
NCases == Len(CasesIn)

Gen(c) == GenFile(c.stext, c.stree, c.records, c.codec, c.codeckey, c.usermeta, c.sync, c.choices)

VARIABLE i
Init == i = 1
Next == /\ i <= NCases
        /\ PrintT(<<"B", CasesIn[i].id>>)
        /\ PrintT(<<"G", CasesIn[i].id, ToJson(Gen(CasesIn[i]))>>)
        /\ i' = i + 1
AllJudged == TLCGet("stats").diameter - 1 = NCases
=============================================================================
