----------------------------- MODULE GenThreads -----------------------------
(* From recorded footprints to schedules worth replaying (C18).               *)
EXTENDS Naturals, Integers, Sequences, TLC, Json, IOUtils, Threads

CasesIn == ndJsonDeserialize(IOEnv.CASES)
NCases == Len(CasesIn)
AsSet(s) == { s[i] : i \in 1..Len(s) }
SetToSeq2(S) == LET RECURSIVE f(_) f(T) == IF T = {} THEN <<>> ELSE LET x == CHOOSE y \in T : \A z \in T : y <= z IN <<x>> \o f(T \ {x}) IN f(S)
Gen(c) == [points |-> SetToSeq2(SuggestedPoints(c.nx, AsSet(c.wx), AsSet(c.wy))),
           conflicts |-> Cardinality(Conflicts(AsSet(c.wx), AsSet(c.wy)))]
VARIABLE i
Init == i = 1
Next == /\ i <= NCases
        /\ PrintT(<<"B", CasesIn[i].id>>)
        /\ PrintT(<<"G", CasesIn[i].id, ToJson(Gen(CasesIn[i]))>>)
        /\ i' = i + 1
AllJudged == TLCGet("stats").diameter - 1 = NCases
=============================================================================
