----------------------------- MODULE GenThreads -----------------------------
(* From recorded footprints to schedules worth replaying (C18).               *)
EXTENDS Naturals, Integers, Sequences, TLC, Json, IOUtils, Threads

CasesIn == ndJsonDeserialize(IOEnv.CASES)
NCases == Len(CasesIn)
AsSet(s) == { s[i] : i \in 1..Len(s) }
SetToSeq2(S) == LET RECURSIVE f(_) f(T) == IF T = {} THEN <<>> ELSE LET x == CHOOSE y \in T : \A z \in T : y <= z IN <<x>> \o f(T \ {x}) IN f(S)
Gen(c) == [points |-> SetToSeq2(SuggestedPoints(c.nx, AsSet(c.wx), AsSet(c.wy))),
           nested |-> LET S == SuggestedNested(AsSet(c.wx), AsSet(c.wy)) IN
                      IF Cardinality(S) <= 400 THEN SetToSeq2({ p[1] * 100000 + p[2] : p \in S }) ELSE <<>>,
           nnested |-> Cardinality(SuggestedNested(AsSet(c.wx), AsSet(c.wy))),
           conflicts |-> Cardinality(Conflicts(AsSet(c.wx), AsSet(c.wy)))]
\* NOTE on the variable's name: a state variable that shares its name with bound variables / operator parameters of the extended
\* modules (i, s, c, d ...) makes TLC treat those expressions as state-level and stop caching lazily evaluated values
\* (measured: 240 s instead of 3 s for one 200-element array). Hence the unusual name.
VARIABLE casepos
Init == casepos = 1
Next == /\ casepos <= NCases
        /\ PrintT(<<"B", CasesIn[casepos].id>>)
        /\ PrintT(<<"G", CasesIn[casepos].id, ToJson(Gen(CasesIn[casepos]))>>)
        /\ casepos' = casepos + 1
AllJudged == TLCGet("stats").diameter - 1 = NCases
=============================================================================
