------------------------------ MODULE JLogical ------------------------------
(* Judge for logical-type events (C16): one logical value written and read   *)
(* back under a schema whose top node carries the logical type.              *)
EXTENDS Naturals, Integers, Sequences, SequencesExt, FiniteSets, TLC, JCommon, AvroBinary

Plain(t) == IF t.k = "fixed" THEN [t EXCEPT !.lt = NoLt] ELSE [k |-> t.k, lt |-> NoLt]

\* op = "logical": c.schema, c.datum, c.write [ok, bytes | exc], c.read [ok, v | exc]
Judge_logical(c) ==
  LET P == Parse(c.schema) IN
  IF ~P.ok THEN << Cl("H.schema", "fail") >>
  ELSE
  LET t == P.t
      names == P.st.names
      d == c.datum
      l == LtOf(t)
      pr == Prep(t, d)
      w == c.write
  IN IF l = "" THEN << Cl("H.notlogical", "fail") >>
     ELSE IF pr.st = "raise" THEN
        \* a value the schema cannot represent is never stored as a different number: writing raises
        << Tri("C16.reject", ~w.ok) >>
     ELSE IF ~Conforms(t, d, names, Opts0) THEN << Cl("C16.repr", "unspec") >>      \* e.g. a date whose day number leaves the int range
     ELSE IF ~w.ok THEN << Cl("C16.repr", "fail"), Cl("C16.roundtrip", "fail") >>
     ELSE
     LET dec == Decode(Plain(t), w.bytes, names)           \* the stored representation, read without the annotation
         full == dec.st = "ok" /\ dec.p = Len(w.bytes) + 1
         s == dec.v
         exact == s = pr.v
         \* bytes-decimal: any sign-extended two's-complement string denoting the unscaled integer
         decOk == l = "decimal" /\ t.k = "bytes" /\ s.p = "bytes" /\ s.by # <<>> /\ FromTwosBE(s.by) = Unscaled(d, t.lt.scale)
         \* millisecond types: "truncated to the type's precision" - floor or truncation toward zero
         em == IF l = "timestamp-millis" THEN EpochMicros(d, d.aware) ELSE EpochMicros(d, FALSE)
         msOk == l \in {"timestamp-millis", "local-timestamp-millis"} /\ d.p = "datetime" /\ s.p = "int"
                 /\ IOf(s) \in { FloorDiv1000(em), TruncDiv1000(em) }
         back == Unprep(t, s)
         r == c.read
     IN << Tri("C16.repr", full /\ (exact \/ decOk \/ msOk)),
           IF ~full THEN Cl("C16.roundtrip", "fail")
           ELSE IF back.p = "unrepresentable" THEN Cl("C16.roundtrip", "unspec")
           ELSE Tri("C16.roundtrip", r.ok /\ VEq(r.v, back)),
           \* the spec's own round trip: what comes back is the value itself (up to the type's precision)
           IF exact /\ l \in {"date", "time-micros", "timestamp-micros", "local-timestamp-micros", "uuid", "decimal"} /\ d.p # "int"
           THEN Tri("S.logical_rt", VEq(back, IF l = "timestamp-micros" /\ d.p = "datetime" /\ ~d.aware THEN [d EXCEPT !.aware = TRUE] ELSE d))
           ELSE Cl("S.logical_rt", "skip") >>
=============================================================================
