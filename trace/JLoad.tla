-------------------------------- MODULE JLoad --------------------------------
(* Judge for load_schema / load_schema_ordered events (C19).                   *)
EXTENDS Naturals, Integers, Sequences, SequencesExt, FiniteSets, TLC, JCommon, AvroLoad, AvroBinary

RepoFn(files) == [n \in { files[i].name : i \in 1..Len(files) } |-> (files[CHOOSE i \in 1..Len(files) : files[i].name = n]).schema]

\* op = "load": c.top (raw schema of the top file), c.files << [name, schema] >> (the other files), c.missing (text, "" if none removed),
\*   c.res [ok, canon (text), parsed (JSON)] | [ok |-> FALSE, exc, msg (text), ename (text)], c.ordered same for load_schema_ordered (or [skip]),
\*   c.enc << [datum, bytes] >> datum written under the loaded schema
Judge_load(c) ==
  LET repo == RepoFn(c.files)
      P == ParseRepo(c.top, repo)
      M == LoaderMachine(c.top, repo)
      o == Opts0
  IN IF P.ok THEN
        LET want == CanonText(CanonTree(P.t))
            MP == IF M.st = "ok" THEN Parse(M.tree) ELSE [ok |-> FALSE]
        IN << Tri("C19.canon", c.res.ok /\ c.res.canon = want),
              When("C19.names", c.res.ok, LET R == Parse(c.res.parsed) IN R.ok /\ CanonTree(R.t) = CanonTree(P.t)),
              IF "skip" \in DOMAIN c.ordered THEN Cl("C19.ordered", "skip")
              ELSE Tri("C19.ordered", c.ordered.ok /\ c.ordered.canon = want),
              IF ~c.res.ok \/ Len(c.enc) = 0 THEN Cl("C19.encoding", "skip")
              ELSE Tri("C19.encoding", \A i \in 1..Len(c.enc) :
                          LET e == Encode(P.t, c.enc[i].datum, P.st.names, o) IN
                          (e.ok => c.enc[i].ok /\ c.enc[i].bytes = e.b)) >>
     ELSE IF P.kind = "undefined" /\ c.missing # <<>> THEN
        \* a missing file surfaces as an error naming the missing type
        << Tri("C19.missing", ~c.res.ok /\ (c.res.ename = P.name \/ ContainsSeq(c.res.msg, P.name))) >>
     ELSE << Cl("H.schema", "fail") >>
=============================================================================
