"""Common machinery of the checks: context, verdict collection, known findings, evidence, replay files."""
import hashlib
import json
import os
import random
import sys
import time

from . import tlc

VERIF = tlc.VERIF
KNOWN = os.path.join(VERIF, "known_findings.json")


class Ctx:
    def __init__(self, prop, tier, seed, repo):
        self.prop = prop
        self.tier = tier
        self.seed = seed
        self.repo = repo
        self.t0 = time.time()
        self.rnd = random.Random("%s/%s/%d" % (prop, tier, seed))
        self.violations = []      # (clause, case, note)
        self.known_hits = []      # (finding, case)
        self.machinery = []       # strings
        self.tally = {}           # clause -> {ok, fail, unspec, skip, known}
        self.states = 0
        self.transitions = 0
        self.traces = 0
        self.evaluations = 0
        self.nontrivial = set()
        self.samples = []
        self.extra = {}
        self.assumptions = []
        self.exhaustive = None
        self.rule = ""
        self.checker_cmds = []
        self.selftest = tier == "thorough" or os.environ.get("VERIF_SELFTEST") == "1"

    def quick(self):
        return self.tier == "quick"

    def sub_rnd(self, label):
        return random.Random("%s/%s/%d/%s" % (self.prop, self.tier, self.seed, label))

    # ---- bookkeeping -------------------------------------------------------------------
    def count(self, clause, verdict, n=1):
        t = self.tally.setdefault(clause, {"ok": 0, "fail": 0, "unspec": 0, "skip": 0, "known": 0})
        t[verdict] = t.get(verdict, 0) + n

    def add_model(self, gen, dist):
        self.transitions += gen
        self.states += dist

    def mark(self, case_key, nontrivial):
        self.evaluations += 1
        if nontrivial:
            self.nontrivial.add(case_key)

    def sample(self, s, limit=4):
        if len(self.samples) < limit:
            self.samples.append(s)


def case_key(obj):
    return hashlib.sha256(json.dumps(obj, sort_keys=True, separators=(",", ":")).encode()).hexdigest()[:16]


# ------------------------------------------------------------------------ known findings
def load_known():
    if not os.path.exists(KNOWN):
        return {"findings": [], "fixed": []}
    with open(KNOWN) as f:
        return json.load(f)


def match_known(prop, clause, sig):
    """sig: dict describing the failing case structurally (produced by the property's driver).
    A finding matches when its property and clause are equal and every key of its 'signature' equals sig's."""
    for f in load_known().get("findings", []):
        if f["property"] != prop or f["clause"] != clause:
            continue
        if all(sig.get(k) == v for k, v in f["signature"].items()):
            return f
    return None


# ------------------------------------------------------------------------ judging logged cases with TLC
def judge_cases(ctx, cases, name, own_prefixes, sig_fn=None, nontrivial_fn=None, module="Cases", describe=None, env_extra=None):
    """Run TLC over the cases; fold the verdicts into ctx.
    own_prefixes: clause prefixes this check owns (e.g. ("C01.",)); clauses H.* / S.* failing are machinery errors;
    other properties' clauses are tallied under 'other' but never reported by this check."""
    if not cases:
        return {}
    res = tlc.run_cases(cases, "%s-%s-%s" % (ctx.prop, ctx.tier, name), module=module, env_extra=env_extra)
    # ---- non-vacuity: corrupted copies of a few real cases must be rejected by the clause that binds the corrupted field
    probes = []
    if ctx.selftest:
        from . import selftest
        seen_labels = {}
        for c in cases:
            orig = res["results"].get(c["id"], [])
            for label, clause, cc in selftest.corruptions(c):
                if not clause.startswith(own_prefixes) or seen_labels.get(label, 0) >= 3:
                    continue
                if not any(cl.startswith(clause) and v == "ok" for cl, v in orig):
                    continue          # corrupt only what the spec accepted: the probe asks "would this clause have noticed?"
                seen_labels[label] = seen_labels.get(label, 0) + 1
                cc["id"] = "ST%d" % len(probes)
                probes.append((label, clause, cc))
        if probes:
            pres = tlc.run_cases([p[2] for p in probes], "%s-%s-%s-selftest" % (ctx.prop, ctx.tier, name), module=module, env_extra=env_extra)
            for label, clause, cc in probes:
                verdicts = pres["results"].get(cc["id"], [])
                hit = any(cl.startswith(clause) and v == "fail" for cl, v in verdicts)
                st = ctx.extra.setdefault("selftest", {}).setdefault(label, {"clause": clause, "rejected": 0, "accepted": 0})
                st["rejected" if hit else "accepted"] += 1
                if not hit:
                    ctx.machinery.append("self-test: corruption '%s' was not rejected by %s (verdicts %s)" % (label, clause, verdicts[:6]))
    ctx.add_model(res["transitions"], res["states"])
    ctx.checker_cmds.append("tlc %s.tla over %d logged cases (%s)" % (module, len(cases), name))
    by_id = {c["id"]: c for c in cases}
    for cid, msg in res["crashes"]:
        ctx.machinery.append("TLC evaluation error on case %s (%s): %s" % (cid, name, msg[:400]))
        dump_replay(ctx, by_id[cid], "S.crash", subdir="crash")
    for c in cases:
        verdicts = res["results"][c["id"]]
        ctx.traces += 1
        key = case_key({k: v for k, v in c.items() if k != "id"})
        ctx.mark(key, nontrivial_fn(c) if nontrivial_fn else True)
        for clause, v in verdicts:
            own = clause.startswith(own_prefixes)
            if clause.startswith(("H.", "S.")):
                if v == "fail":
                    ctx.machinery.append("machinery clause %s failed on case %s (%s)" % (clause, c["id"], name))
                    dump_replay(ctx, c, clause, subdir="machinery")
                continue
            if not own:
                continue
            if v == "fail":
                sig = sig_fn(c, clause) if sig_fn else {}
                kf = match_known(ctx.prop, clause, sig)
                if kf:
                    ctx.count(clause, "known")
                    ctx.known_hits.append((kf, c))
                else:
                    ctx.count(clause, "fail")
                    ctx.violations.append((clause, c, describe(c) if describe else ""))
            else:
                ctx.count(clause, v)
    return res["results"]


def dump_replay(ctx, case, clause, subdir=None):
    d = os.path.join(tlc.OUT, "replays", ctx.prop if not subdir else os.path.join(ctx.prop, subdir))
    os.makedirs(d, exist_ok=True)
    body = {"property": ctx.prop, "clause": clause, "tier": ctx.tier, "seed": ctx.seed, "case": case}
    h = case_key(body["case"])
    p = os.path.join(d, "%s-%s.json" % (clause.replace(".", "_"), h))
    with open(p, "w") as f:
        json.dump(body, f, separators=(",", ":"))
    return p


# ------------------------------------------------------------------------ finishing
def finish(ctx, level="model_checking"):
    """Print verdict lines, write evidence, return the exit code."""
    os.makedirs(os.path.join(tlc.OUT, "evidence"), exist_ok=True)
    seen_known = {}
    for kf, c in ctx.known_hits:
        seen_known.setdefault(kf["id"], kf)
    for kid, kf in sorted(seen_known.items()):
        print("KNOWN-FINDING: property=%s %s [%s]" % (ctx.prop, kf["what"], kid))
    vio_lines = []
    seen = set()
    for clause, c, note in ctx.violations:
        p = dump_replay(ctx, c, clause)
        if p in seen:
            continue
        seen.add(p)
        vio_lines.append("VIOLATION property=%s replay=%s clause=%s %s" % (ctx.prop, p, clause, note))
    code = 0
    if ctx.machinery:
        for m in ctx.machinery[:20]:
            print("MACHINERY-FAILURE: " + m, file=sys.stderr)
        code = 2
    # a clause that was never live is a vacuous check: machinery failure
    if vio_lines:
        for l in vio_lines[:50]:
            print(l)
        if len(vio_lines) > 50:
            print("... %d more violations" % (len(vio_lines) - 50))
        code = 1          # violations judged by TLC stand whatever else went wrong in the harness (reported above on stderr)
    cov = {
        "states": max(ctx.states, 0),
        "transitions": max(ctx.transitions, 0),
        "traces_validated_against_impl": ctx.traces,
        "evaluations": ctx.evaluations,
        "distinct_nontrivial": len(ctx.nontrivial),
        "rule": ctx.rule,
        "samples": ctx.samples or ["(none)"],
        "clauses": ctx.tally,
        "known_findings_hit": sorted(seen_known),
        "checker_cmd": "; ".join(ctx.checker_cmds),
        "trusted_base": ["TLC 1.8 (tla2tools)", "spec/*.tla", "harness/proj.py projection", "CPython json/zlib/bz2/lzma/hashlib where stated"],
    }
    if ctx.exhaustive is not None:
        cov["exhaustive"] = ctx.exhaustive
    cov.update(ctx.extra)
    ev = {
        "property_id": ctx.prop,
        "tier": ctx.tier,
        "seed": ctx.seed,
        "level": level,
        "coverage": cov,
        "assumptions": ["pure-Python fastavro modules (*_py) from the working tree at %s are bound; Cython mirrors are out of scope" % ctx.repo,
                        "process time zone UTC, PYTHONHASHSEED as given by the caller"] + ctx.assumptions,
        "wall_s": round(time.time() - ctx.t0, 2),
        "violations": len(vio_lines),
    }
    with open(os.path.join(tlc.OUT, "evidence", ctx.prop + ".json"), "w") as f:
        json.dump(ev, f, indent=1, default=str)
    status = {0: "HELD", 1: "VIOLATED", 2: "MACHINERY-FAILURE"}[code]
    print("%s %s tier=%s seed=%d cases=%d states=%d wall=%.1fs clauses=%s" % (
        ctx.prop, status, ctx.tier, ctx.seed, ctx.traces, ctx.states, time.time() - ctx.t0,
        json.dumps({k: {a: b for a, b in v.items() if b} for k, v in sorted(ctx.tally.items())})))
    return code
