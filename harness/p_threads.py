"""C18: concurrent operations on distinct streams behave as if sequential.
Deterministic line-level scheduler (sys.settrace): thread X is suspended before its k-th line event inside the library, thread Y runs to
completion, X resumes.  Footprints (which library lines change shared state) are recorded first and given to the Threads model (TLC), whose
conflicting schedules are replayed; every single pre-emption point of the selected pairs is replayed as a backstop."""
import copy
import decimal
import io
import os
import sys
import threading

from . import core, proj


def lib_prefix(repo):
    return os.path.join(os.path.realpath(repo), "fastavro") + os.sep


# ---------------------------------------------------------------- operations (each on its own streams; schemas shared on purpose)
def build_ops(fa):
    from fastavro import json_reader, json_writer
    from fastavro.validation import validate
    ops = {}
    REC = {"type": "record", "name": "t.Rec", "fields": [
        {"name": "a", "type": "long"}, {"name": "s", "type": "string"},
        {"name": "u", "type": ["null", {"type": "record", "name": "Item", "fields": [{"name": "v", "type": "int"}]}]},
        {"name": "again", "type": ["null", "Item"], "default": None},
        {"name": "arr", "type": {"type": "array", "items": "double"}, "default": []},
        {"name": "mp", "type": {"type": "map", "values": {"type": "array", "items": "int"}}, "default": {}}]}
    PREC = fa.parse_schema(copy.deepcopy(REC))
    D1 = {"a": 2 ** 40, "s": "hé", "u": {"v": 7}, "again": {"v": 8}, "arr": [1.5, 2.5]}
    D2 = {"a": -3, "s": "", "u": None, "arr": []}
    D3 = {"a": 77, "s": "third", "u": {"v": -1}, "again": None, "arr": [0.5], "mp": {"k": [1, 2], "l": []}}
    DEC5 = fa.parse_schema({"type": "bytes", "logicalType": "decimal", "precision": 5, "scale": 2})
    DEC20 = fa.parse_schema({"type": "bytes", "logicalType": "decimal", "precision": 20, "scale": 2})
    FDEC_A = fa.parse_schema({"type": "fixed", "name": "FA", "size": 8, "logicalType": "decimal", "precision": 15, "scale": 3})
    FDEC_B = fa.parse_schema({"type": "fixed", "name": "FB", "size": 16, "logicalType": "decimal", "precision": 30, "scale": 1})
    ITEM_X = {"type": "record", "name": "Holder", "fields": [{"name": "first", "type": {"type": "record", "name": "Item", "fields": [{"name": "v", "type": "int"}]}},
                                                             {"name": "second", "type": "Item"}]}
    ITEM_Y = {"type": "record", "name": "Holder", "fields": [{"name": "first", "type": {"type": "record", "name": "Item", "fields": [{"name": "w", "type": "string"}, {"name": "z", "type": "double"}]}},
                                                             {"name": "second", "type": "Item"}]}

    def sl(schema, d):
        fo = io.BytesIO()
        fa.schemaless_writer(fo, schema, d)
        return fo.getvalue()
    b_d1 = sl(PREC, D1)
    b_dec5 = sl(DEC5, decimal.Decimal("123.45"))
    b_dec20 = sl(DEC20, decimal.Decimal("1234567890123456.78"))
    b_x = sl(ITEM_X, {"first": {"v": 1}, "second": {"v": 2}})
    b_y = sl(ITEM_Y, {"first": {"w": "a", "z": 1.5}, "second": {"w": "bb", "z": -2.0}})

    ops["write_shared"] = lambda: sl(PREC, D1)
    ops["write_shared2"] = lambda: sl(PREC, D2)
    ops["read_shared"] = lambda: fa.schemaless_reader(io.BytesIO(b_d1), PREC)
    ops["validate_shared"] = lambda: validate(D1, PREC, raise_errors=False)
    ops["parse_raw"] = lambda: proj.strip_parsed(fa.parse_schema(copy.deepcopy(REC)))
    ops["read_dec5"] = lambda: fa.schemaless_reader(io.BytesIO(b_dec5), DEC5)
    ops["read_dec20"] = lambda: fa.schemaless_reader(io.BytesIO(b_dec20), DEC20)
    ops["write_dec5"] = lambda: sl(DEC5, decimal.Decimal("-1.5"))
    ops["write_fdec_a"] = lambda: sl(FDEC_A, decimal.Decimal("-123456789.125"))
    ops["write_fdec_b"] = lambda: sl(FDEC_B, decimal.Decimal("98765432109876543210.5"))
    ops["read_item_x"] = lambda: fa.schemaless_reader(io.BytesIO(b_x), ITEM_X)
    ops["read_item_y"] = lambda: fa.schemaless_reader(io.BytesIO(b_y), ITEM_Y)

    def jw():
        fo = io.StringIO()
        json_writer(fo, PREC, [D1, D2])
        return fo.getvalue()
    text = jw()
    ops["json_write"] = jw

    def jw2():
        fo = io.StringIO()
        json_writer(fo, PREC, [D3, D1])
        return fo.getvalue()
    text2 = jw2()
    ops["json_write2"] = jw2
    ops["json_read2"] = lambda: list(json_reader(io.StringIO(text2), PREC))
    ops["write_shared3"] = lambda: sl(PREC, D3)
    b_d3 = sl(PREC, D3)
    ops["read_shared3"] = lambda: fa.schemaless_reader(io.BytesIO(b_d3), PREC)
    ops["validate_shared3"] = lambda: validate(D3, PREC, raise_errors=False)
    ops["json_read"] = lambda: list(json_reader(io.StringIO(text), PREC))

    # resolution with one parsed reader schema object shared by both threads (first use happens inside the race)
    def mk_resolve(d):
        data = sl(PREC, d)

        def run():
            rs = ops["_reader_schema"]()
            return fa.schemaless_reader(io.BytesIO(data), PREC, rs)
        return run
    READER = {"type": "record", "name": "t.Rec", "fields": [
        {"name": "s", "type": "string"}, {"name": "a", "type": "double"}, {"name": "added", "type": "int", "default": 42},
        {"name": "u", "type": ["null", {"type": "record", "name": "Item", "fields": [{"name": "v", "type": "long"}, {"name": "w", "type": "string", "default": "dw"}]}]},
        {"name": "arr2", "type": {"type": "array", "items": "double"}, "default": [], "aliases": ["arr"]}]}
    shared_reader = {}

    def reader_schema():
        # one parsed object per pair execution: created by whoever comes first, then shared
        if "p" not in shared_reader:
            shared_reader["p"] = fa.parse_schema(copy.deepcopy(READER))
        return shared_reader["p"]
    ops["_reader_schema"] = reader_schema
    ops["_reset"] = shared_reader.clear
    ops["resolve_shared"] = mk_resolve(D1)
    ops["resolve_shared3"] = mk_resolve(D3)

    # many distinct record schemas written in one operation (bounded caches keyed by schema get evicted)
    MANY = [fa.parse_schema({"type": "record", "name": "m.R%d" % i, "fields": [{"name": "f%d" % i, "type": "int"}, {"name": "g", "type": "string"}]})
            for i in range(300)]

    def write_many():
        out = []
        for i, sch in enumerate(MANY):
            out.append(sl(sch, {"f%d" % i: i, "g": "x"}))
        return b"".join(out)
    ops["write_many_schemas"] = write_many

    def cw():
        fo = io.BytesIO()
        fa.writer(fo, PREC, [D1, D2, D1], codec="deflate", sync_marker=b"0123456789abcdef", sync_interval=10)
        return fo.getvalue()
    cbytes = cw()
    ops["container_write"] = cw

    def cw_null():
        fo = io.BytesIO()
        fa.writer(fo, ITEM_X, [{"first": {"v": 1}, "second": {"v": 2}}] * 3, codec="null", sync_marker=b"fedcba9876543210", sync_interval=10)
        return fo.getvalue()
    ops["container_write_other"] = cw_null
    ops["container_read"] = lambda: list(fa.reader(io.BytesIO(cbytes)))
    return ops


PAIRS = [("read_dec5", "read_dec20"), ("read_dec20", "read_dec5"), ("write_shared", "read_shared"), ("read_shared", "write_shared2"),
         ("validate_shared", "write_shared"), ("parse_raw", "parse_raw"), ("json_write", "json_read"), ("json_read", "json_write"),
         ("write_fdec_a", "write_fdec_b"), ("write_fdec_b", "write_fdec_a"), ("read_item_x", "read_item_y"), ("read_item_y", "read_item_x"),
         ("container_write", "container_read"), ("container_read", "container_write"), ("write_dec5", "read_dec20"), ("parse_raw", "read_item_x"),
         # the same operation on both sides (per-class / per-module scratch state shows up here)
         ("json_write", "json_write2"), ("json_write2", "json_write"), ("json_read", "json_read2"), ("write_shared", "write_shared3"),
         ("read_shared", "read_shared3"), ("validate_shared", "validate_shared3"), ("container_write", "container_write"),
         ("container_read", "container_read"), ("write_fdec_a", "write_fdec_a"), ("read_dec5", "read_dec5"),
         ("resolve_shared", "resolve_shared3"), ("resolve_shared3", "resolve_shared"), ("write_shared", "write_many_schemas"),
         ("read_shared", "write_many_schemas"), ("container_write", "container_write_other"), ("container_write_other", "container_write")]


def outcome(fn):
    try:
        return ("ok", proj.pv(_plain(fn())))
    except Exception as e:  # noqa: BLE001
        return ("raise", type(e).__name__)


def _plain(x):
    if isinstance(x, dict):
        return {str(k): _plain(v) for k, v in x.items()}
    if isinstance(x, (list, tuple)):
        return [_plain(v) for v in x]
    return x


# ---------------------------------------------------------------- footprints: library lines after which shared state differs
def shared_cells(repo):
    """Module-level mutable objects of the fastavro package: name -> object."""
    cells = {}
    prefix = lib_prefix(repo)
    for mname, mod in list(sys.modules.items()):
        f = getattr(mod, "__file__", None)
        if not f or not os.path.realpath(f).startswith(prefix):
            continue
        for k, v in vars(mod).items():
            if k.startswith("__"):
                continue
            if isinstance(v, (dict, list, set, bytearray, io.BytesIO, io.StringIO, decimal.Context)):
                cells["%s.%s" % (mname, k)] = v
            elif isinstance(v, type) and getattr(v, "__module__", None) == mname:
                # class attributes are shared by all instances
                for ck, cv in vars(v).items():
                    if not ck.startswith("__") and isinstance(cv, (dict, list, set, bytearray, io.BytesIO, io.StringIO, decimal.Context)):
                        cells["%s.%s.%s" % (mname, k, ck)] = cv
    return cells


def cell_digest(v):
    if isinstance(v, decimal.Context):
        return repr((v.prec, v.rounding, v.Emin, v.Emax, v.capitals, v.clamp))
    if isinstance(v, (io.BytesIO, io.StringIO)):
        return repr((v.getvalue(), v.tell()))
    if isinstance(v, dict):
        return repr(sorted((repr(k), id(x) if callable(x) else repr(x)[:200]) for k, x in v.items()))
    return repr(v)[:2000]


def footprint(repo, fn):
    """Run fn alone under tracing; returns (number of library line events, [(event index, file:line, cell)] where a cell changed)."""
    prefix = lib_prefix(repo)
    cells = shared_cells(repo)
    last = {k: cell_digest(v) for k, v in cells.items()}
    n = [0]
    writes = []

    def tracer(frame, event, arg):
        fnm = frame.f_code.co_filename
        if not fnm.startswith(prefix):
            return None
        if event == "line":
            n[0] += 1
            for k, v in cells.items():
                d = cell_digest(v)
                if d != last[k]:
                    last[k] = d
                    writes.append((n[0] - 1, "%s:%d" % (os.path.basename(fnm), frame.f_lineno), k))
        return tracer
    sys.settrace(tracer)
    try:
        res = outcome(fn)
    finally:
        sys.settrace(None)
    for k, v in cells.items():
        d = cell_digest(v)
        if d != last[k]:
            writes.append((n[0], "end", k))
    return n[0], writes, res


# ---------------------------------------------------------------- deterministic two-thread scheduler
def run_preempted(repo, fx, fy, k):
    """Thread X runs fx and is suspended right before its k-th library line event; thread Y then runs fy to completion; X resumes."""
    prefix = lib_prefix(repo)
    go_y = threading.Event()
    y_done = threading.Event()
    out = {}
    count = [0]

    def tracer(frame, event, arg):
        if not frame.f_code.co_filename.startswith(prefix):
            return None
        if event == "line":
            if count[0] == k and not go_y.is_set():
                go_y.set()
                y_done.wait(20)
            count[0] += 1
        return tracer

    def tx():
        sys.settrace(tracer)
        try:
            out["x"] = outcome(fx)
        finally:
            sys.settrace(None)
            go_y.set()

    def ty():
        go_y.wait(20)
        try:
            out["y"] = outcome(fy)
        finally:
            y_done.set()
    a = threading.Thread(target=tx)
    b = threading.Thread(target=ty)
    a.start()
    b.start()
    a.join(30)
    b.join(30)
    return out.get("x"), out.get("y"), count[0]


def run_nested(repo, fx, fy, k1, k2):
    """X runs to its k1-th library line event and is suspended; Y runs to its k2-th event and is suspended; X runs to completion; Y resumes.
    (Both operations are inside the library at the same time and finish in the order they started: what a shared LIFO cannot survive.)"""
    prefix = lib_prefix(repo)
    go_y = threading.Event()
    x_resume = threading.Event()
    x_done = threading.Event()
    out = {}
    cx = [0]
    cy = [0]

    def tracer_x(frame, event, arg):
        if not frame.f_code.co_filename.startswith(prefix):
            return None
        if event == "line":
            if cx[0] == k1 and not go_y.is_set():
                go_y.set()
                x_resume.wait(20)
            cx[0] += 1
        return tracer_x

    def tracer_y(frame, event, arg):
        if not frame.f_code.co_filename.startswith(prefix):
            return None
        if event == "line":
            if cy[0] == k2 and not x_resume.is_set():
                x_resume.set()
                x_done.wait(20)
            cy[0] += 1
        return tracer_y

    def tx():
        sys.settrace(tracer_x)
        try:
            out["x"] = outcome(fx)
        finally:
            sys.settrace(None)
            go_y.set()
            x_done.set()

    def ty():
        go_y.wait(20)
        sys.settrace(tracer_y)
        try:
            out["y"] = outcome(fy)
        finally:
            sys.settrace(None)
            x_resume.set()
    a = threading.Thread(target=tx)
    b = threading.Thread(target=ty)
    a.start()
    b.start()
    a.join(30)
    b.join(30)
    return out.get("x"), out.get("y")


_OPS = {}


def _replay_pair(job):
    """Worker process: all schedules of one ordered pair; returns (first bad schedule or None, single, nested schedules run)."""
    repo, x, y, points, pts2, sx, sy = job
    if repo not in _OPS:
        from . import env
        env.bind(repo)
        import fastavro
        _OPS[repo] = build_ops(fastavro)
    ops = _OPS[repo]
    n1 = n2 = 0
    for k in points:
        ops["_reset"]()
        rx, ry, _ = run_preempted(repo, ops[x], ops[y], k)
        n1 += 1
        if rx != sx or ry != sy:
            return (k, rx, ry), n1, n2
    for k1, k2 in pts2:
        ops["_reset"]()
        rx, ry = run_nested(repo, ops[x], ops[y], k1, k2)
        n2 += 1
        if rx != sx or ry != sy:
            return ((k1, k2), rx, ry), n1, n2
    return None, n1, n2


def run_c18(ctx, fa):
    from . import mcheck, tlc
    # M: the two-thread model of a decimal read with a per-call context is serializable under every interleaving
    mcheck.model_check(ctx, "MC_Threads", {"Shared": "FALSE"}, ["Serializable"], "percall", spec="Spec")
    ops = build_ops(fa)
    # sequential results (each operation alone, twice: operations must be deterministic for the comparison to mean anything)
    seq = {}
    foot = {}
    for name, fn in ops.items():
        if name.startswith("_"):
            continue
        ops["_reset"]()
        r1 = outcome(fn)
        ops["_reset"]()
        n, writes, r2 = footprint(ctx.repo, fn)
        if r1 != r2:
            ctx.machinery.append("operation %s is not deterministic when run alone" % name)
        seq[name] = r1
        foot[name] = (n, writes)
    ctx.extra["line_events_per_operation"] = {k: v[0] for k, v in foot.items()}
    ctx.extra["shared_writes_per_operation"] = {k: [w[1] + " " + w[2] for w in v[1]] for k, v in foot.items() if v[1]}
    # ---- M: the Threads model over the recorded footprints; its conflicting schedules are replayed first
    progs = {name: [{"i": w[0], "cell": w[2]} for w in v[1]] for name, v in foot.items()}
    model_cases = []
    for x, y in PAIRS:
        model_cases.append({"id": "%s|%s" % (x, y), "op": "threads", "x": x, "y": y, "nx": foot[x][0], "ny": foot[y][0],
                            "wx": [[w["i"], w["cell"]] for w in progs[x]], "wy": [[w["i"], w["cell"]] for w in progs[y]]})
    res = tlc.run_cases(model_cases, "%s-%s-threads" % (ctx.prop, ctx.tier), module="GenThreads")
    ctx.add_model(res["transitions"], res["states"])
    ctx.checker_cmds.append("tlc GenThreads.tla: conflicting schedules of %d operation pairs from recorded footprints" % len(PAIRS))
    suggested = {}
    nested = {}
    for mc in model_cases:
        g = res["results"].get(mc["id"])
        if isinstance(g, dict):
            suggested[mc["id"]] = g.get("points", [])
            nested[mc["id"]] = [(v // 100000, v % 100000) for v in g.get("nested", [])]
    ctx.extra["nested_schedules_suggested_by_model"] = {k: len(v) for k, v in nested.items() if v}
    ctx.extra["schedules_suggested_by_model"] = {k: len(v) for k, v in suggested.items() if v}
    # ---- replay: model-suggested pre-emption points, then every single pre-emption point (backstop)
    step = 1 if not ctx.quick() else 1
    total = 0
    nnested = 0
    jobs = []
    for x, y in PAIRS:
        nx = foot[x][0]
        ny = foot[y][0]
        points = list(dict.fromkeys(list(suggested.get("%s|%s" % (x, y), [])) + list(range(0, nx + 1, step))))
        # nested schedules (X to k1, Y to k2, X completes, Y completes): those the model derives from the footprints, then a grid
        grid = 16 if ctx.quick() else 120
        pts2 = list(nested.get("%s|%s" % (x, y), []))
        pts2 += [(1 + (i * (nx - 1)) // grid, 1 + (j * (ny - 1)) // grid) for i in range(grid + 1) for j in range(grid + 1)]
        pts2 = list(dict.fromkeys(pts2))
        jobs.append((ctx.repo, x, y, points, pts2, seq[x], seq[y]))
    import multiprocessing
    with multiprocessing.get_context("fork").Pool(min(len(jobs), os.cpu_count() or 4)) as pool:
        replayed = pool.map(_replay_pair, jobs, chunksize=1)
    for (x, y), (_, _, _, points, pts2, _, _), (bad, n1, n2) in zip(PAIRS, jobs, replayed):
        total += n1 + n2
        nnested += n2
        key = "%s|%s" % (x, y)
        ctx.traces += 1
        ctx.mark(key, True)
        if bad is None:
            ctx.count("C18.serializable", "ok", len(points) + len(pts2))
        else:
            k, rx, ry = bad
            case = {"id": key, "op": "sched", "x": x, "y": y, "preempt_before_line_event": k,
                    "x_result": rx, "x_sequential": seq[x], "y_result": ry, "y_sequential": seq[y]}
            sig = {"pair": key}
            kf = core.match_known(ctx.prop, "C18.serializable", sig)
            if kf:
                ctx.count("C18.serializable", "known")
                ctx.known_hits.append((kf, case))
            else:
                ctx.count("C18.serializable", "fail")
                ctx.violations.append(("C18.serializable", case, "pair=%s pre-emption before line event %s of %s: results differ from sequential" % (key, k, x)))
    ctx.evaluations += total
    ctx.extra["schedules_replayed"] = total
    ctx.extra["nested_schedules_replayed"] = nnested
    ctx.exhaustive = True
    ctx.rule = ("%d ordered pairs of operations (decimal reads of different precision, fixed-decimal writes, reads/writes/validate/parse/JSON/container "
                "sharing one parsed schema, readers of schemas that define the same name differently) on distinct streams; for each pair every single "
                "pre-emption point of the first operation at library-line granularity (thread X suspended before its k-th line event, Y runs to "
                "completion, X resumes) and nested schedules (X to k1, Y to k2, X completes, Y completes) on a grid plus those the model derives from conflicting writes, results compared with the sequential results; footprints of shared writes recorded under sys.settrace feed "
                "the Threads model; non-trivial = >= 1 pre-emption") % len(PAIRS)
    ctx.sample({"pair": PAIRS[0], "line_events": foot[PAIRS[0][0]][0], "shared_writes": ctx.extra["shared_writes_per_operation"].get(PAIRS[0][0])})
    ctx.assumptions.append("schedules are those a line-granular scheduler can impose under the GIL (pre-emption between lines of the pure-Python modules)")
