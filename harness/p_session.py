"""C17: results depend only on arguments - histories of public calls, each compared with the same call made first in a fresh library (V)."""
import copy
import decimal
import io
import itertools
import json
import os
import random
import shutil
import tempfile

from . import core, env, proj

# ---- two schemas that define the same names differently, plus friends ------------------------------------------------
S_A1 = {"type": "record", "name": "ns.Event", "fields": [
    {"name": "id", "type": "int"},
    {"name": "p", "type": {"type": "record", "name": "Point", "fields": [{"name": "x", "type": "int"}, {"name": "y", "type": "int", "default": 7}]}},
    {"name": "q", "type": ["null", "Point"], "default": None},
    {"name": "tags", "type": {"type": "array", "items": "string"}, "default": ["a", "b"]},
    {"name": "m", "type": {"type": "map", "values": "long"}, "default": {"k": 1}},
    {"name": "grid", "type": {"type": "array", "items": {"type": "array", "items": "int"}}, "default": [[1, 2], [3]]},
    {"name": "mm", "type": {"type": "map", "values": {"type": "array", "items": "string"}}, "default": {"k": ["v", "w"]}}]}
S_A2 = {"type": "record", "name": "ns.Event", "fields": [
    {"name": "label", "type": "string"},
    {"name": "p", "type": {"type": "record", "name": "Point", "fields": [{"name": "lat", "type": "double"}]}},
    {"name": "q", "type": ["null", "Point"], "default": None}]}
D_A1 = {"id": 5, "p": {"x": 1}, "q": {"x": 2, "y": 3}}
D_A1b = {"id": -9, "p": {"x": 10, "y": 20}, "tags": ["z"], "m": {}}
D_A2 = {"label": "hé", "p": {"lat": 1.5}, "q": {"lat": -2.25}}
S_BAD = {"type": "record", "name": "ns.Broken", "fields": [{"name": "ok", "type": {"type": "enum", "name": "Color", "symbols": ["R"]}},
                                                          {"name": "bad", "type": "ns.DoesNotExist"}]}
S_COLOR2 = {"type": "record", "name": "ns.UsesColor", "fields": [{"name": "c", "type": {"type": "enum", "name": "Color", "symbols": ["X", "Y"]}}]}
S_DEC5 = {"type": "bytes", "logicalType": "decimal", "precision": 5, "scale": 2}
S_DEC20 = {"type": "bytes", "logicalType": "decimal", "precision": 20, "scale": 2}
S_DEC_NOSCALE = {"type": "record", "name": "ns.Money", "fields": [{"name": "amounts", "type": {"type": "array", "items": {"type": "bytes", "logicalType": "decimal", "precision": 6}}}]}
S_READER_ALIAS = {"type": "record", "name": "ns.Happening", "aliases": "ns.Event", "fields": [{"name": "id", "type": "long"},
                  {"name": "pt", "aliases": ["p"], "type": {"type": "record", "name": "Spot", "aliases": "Point", "fields": [{"name": "x", "type": "int"}]}}]}
S_READER = {"type": "record", "name": "ns.Event", "fields": [{"name": "id", "type": "long"}, {"name": "extra", "type": "string", "default": "dflt"},
                                                            {"name": "m", "type": {"type": "map", "values": "long"}, "default": {"d": 4}},
                                                            {"name": "deep", "type": {"type": "map", "values": {"type": "array", "items": "int"}},
                                                             "default": {"d": [4, 5]}}]}


def _sl(fa, schema, datum, **kw):
    fo = io.BytesIO()
    fa.schemaless_writer(fo, schema, datum, **kw)
    return fo.getvalue()


def build_calls(tmpdir):
    """name -> (args factory, function(fa, args, shared)); args are rebuilt for every call; `shared` lives for one history."""
    calls = {}

    def add(name, mk, fn):
        calls[name] = (mk, fn)

    def canon(fa, s):
        from fastavro.schema import to_parsing_canonical_form
        return to_parsing_canonical_form(s)

    def parse_report(fa, a, sh, key=None):
        d = {}
        p = fa.parse_schema(a["schema"], d)
        if key:
            sh[key] = p
        return {"names": sorted(d), "canon": canon(fa, p)}
    add("parse_A1", lambda: {"schema": copy.deepcopy(S_A1)}, lambda fa, a, sh: parse_report(fa, a, sh, "P1"))
    add("parse_A2", lambda: {"schema": copy.deepcopy(S_A2)}, lambda fa, a, sh: parse_report(fa, a, sh, "P2"))
    add("parse_bad", lambda: {"schema": copy.deepcopy(S_BAD)}, lambda fa, a, sh: parse_report(fa, a, sh))
    add("parse_color2", lambda: {"schema": copy.deepcopy(S_COLOR2)}, lambda fa, a, sh: parse_report(fa, a, sh))
    add("write_A1", lambda: {"schema": copy.deepcopy(S_A1), "datum": copy.deepcopy(D_A1)}, lambda fa, a, sh: _sl(fa, a["schema"], a["datum"]))
    add("write_A2", lambda: {"schema": copy.deepcopy(S_A2), "datum": copy.deepcopy(D_A2)}, lambda fa, a, sh: _sl(fa, a["schema"], a["datum"]))
    # a parsed-schema object created earlier in the history (or now) and reused
    add("write_shared_P1", lambda: {"datum": copy.deepcopy(D_A1b)},
        lambda fa, a, sh: _sl(fa, sh.setdefault("P1", fa.parse_schema(copy.deepcopy(S_A1))), a["datum"]))
    add("write_strict_A1", lambda: {"schema": copy.deepcopy(S_A1), "datum": dict(copy.deepcopy(D_A1b), q=None, grid=[[5]], mm={"a": []})},
        lambda fa, a, sh: _sl(fa, a["schema"], a["datum"], strict=True))
    add("write_strict_A2_extra", lambda: {"schema": copy.deepcopy(S_A2), "datum": dict(copy.deepcopy(D_A2), id=1)},
        lambda fa, a, sh: _sl(fa, a["schema"], a["datum"], strict=True))

    def read_sl(fa, a, sh):
        return fa.schemaless_reader(io.BytesIO(a["bytes"]), a["schema"])
    add("read_A1", lambda: {"schema": copy.deepcopy(S_A1), "bytes": bytes.fromhex("0a0204060200")},
        lambda fa, a, sh: fa.schemaless_reader(io.BytesIO(_sl(fa, a["schema"], D_A1)), a["schema"]))
    add("read_A2", lambda: {"schema": copy.deepcopy(S_A2)},
        lambda fa, a, sh: fa.schemaless_reader(io.BytesIO(_sl(fa, a["schema"], D_A2)), a["schema"]))
    add("read_resolve", lambda: {"w": copy.deepcopy(S_A1), "r": copy.deepcopy(S_READER)},
        lambda fa, a, sh: [fa.schemaless_reader(io.BytesIO(_sl(fa, a["w"], D_A1)), a["w"], a["r"]),
                           fa.schemaless_reader(io.BytesIO(_sl(fa, a["w"], D_A1b)), a["w"], a["r"])])

    def container_bad(fa, a, sh):
        fo = io.BytesIO()
        try:
            fa.writer(fo, a["schema"], a["records"], sync_marker=b"0123456789abcdef")
        except Exception as e:  # noqa: BLE001
            return {"raised": type(e).__name__, "bytes": fo.getvalue()}
        return {"raised": None, "bytes": fo.getvalue()}
    add("container_fails_midway", lambda: {"schema": copy.deepcopy(S_A1), "records": [copy.deepcopy(D_A1), {"id": "not an int", "p": {"x": 1}}, copy.deepcopy(D_A1b)]},
        container_bad)

    def container_rt(fa, a, sh):
        fo = io.BytesIO()
        fa.writer(fo, a["schema"], a["records"], sync_marker=b"0123456789abcdef", codec="deflate")
        rd = fa.reader(io.BytesIO(fo.getvalue()))
        return {"bytes": fo.getvalue(), "records": list(rd), "meta_keys": sorted(rd.metadata)}
    add("container_A2", lambda: {"schema": copy.deepcopy(S_A2), "records": [copy.deepcopy(D_A2)] * 2}, container_rt)

    def writer_object(fa, a, sh):
        # the Writer object used directly: failed write() calls of several exception kinds are swallowed, later records must not notice
        from fastavro.write import Writer
        fo = io.BytesIO()
        w = Writer(fo, a["schema"], sync_marker=b"0123456789abcdef")
        raised = []
        for r in a["records"]:
            try:
                w.write(r)
            except Exception as e:  # noqa: BLE001
                raised.append(type(e).__name__)
        w.flush()
        fo2 = io.BytesIO()
        w2 = Writer(fo2, a["schema"], sync_marker=b"0123456789abcdef")
        for r in a["records"]:
            if r["id"] in a["good"]:
                w2.write(r)
        w2.flush()
        # the file is the one a Writer produces that never saw the rejected records
        return {"raised": raised, "bytes": fo.getvalue(), "__must__": fo.getvalue() == fo2.getvalue()}
    S_W = {"type": "record", "name": "ns.W", "fields": [{"name": "id", "type": "long"}, {"name": "f", "type": "float"},
                                                          {"name": "m", "type": {"type": "map", "values": "int"}}]}
    add("writer_object_failed_writes", lambda: {"schema": copy.deepcopy(S_W), "records": [
        {"id": 1, "f": 1.5, "m": {"a": 1}}, {"id": 2, "f": 1e39, "m": {}}, {"id": 3, "f": 0.5, "m": [1, 2]}, {"id": 4, "f": 2.5, "m": {"k": 2 ** 20}},
        {"id": 5, "f": -1.0, "m": {"z": 0}}], "good": [1, 4, 5]}, writer_object)

    def val(fa, a, sh):
        from fastavro.validation import validate
        return [validate(d, a["schema"], raise_errors=False) for d in a["data"]]
    add("validate_A1", lambda: {"schema": copy.deepcopy(S_A1), "data": [copy.deepcopy(D_A1), copy.deepcopy(D_A2), {"id": 1, "p": {"x": 1, "y": "no"}}]}, val)
    add("validate_A2", lambda: {"schema": copy.deepcopy(S_A2), "data": [copy.deepcopy(D_A2), copy.deepcopy(D_A1)]}, val)

    def fp(fa, a, sh):
        from fastavro.schema import fingerprint
        c = canon(fa, a["schema"])
        return [c, fingerprint(c, "CRC-64-AVRO"), fingerprint(c, "sha256")]
    add("canon_fp_A2", lambda: {"schema": copy.deepcopy(S_A2)}, fp)

    def js(fa, a, sh):
        from fastavro import json_reader, json_writer
        fo = io.StringIO()
        json_writer(fo, a["schema"], a["records"])
        text = fo.getvalue()
        back = list(json_reader(io.StringIO(text), a["schema"]))
        # a second read of a text that lacks the defaulted keys
        stripped = "\n".join(json.dumps({k: v for k, v in json.loads(l).items() if k not in ("tags", "m", "q", "grid", "mm")}) for l in text.split("\n"))
        back2 = list(json_reader(io.StringIO(stripped), a["schema"]))
        return {"text": text, "back": back, "back_defaults": back2}
    add("json_A1", lambda: {"schema": copy.deepcopy(S_A1), "records": [copy.deepcopy(D_A1), copy.deepcopy(D_A1b)]}, js)

    def js_shared(fa, a, sh):
        from fastavro import json_reader
        p1 = sh.setdefault("P1", fa.parse_schema(copy.deepcopy(S_A1)))
        return [list(json_reader(io.StringIO(a["text"]), p1)), canon(fa, p1), _sl(fa, p1, copy.deepcopy(D_A1))]
    add("json_read_shared_P1", lambda: {"text": '{"id": 1, "p": {"x": 2, "y": 3}}\n{"id": 2, "p": {"x": 4, "y": 5}, "grid": [[9]]}'}, js_shared)

    def genone(fa, a, sh):
        from fastavro.utils import generate_many
        random.seed(a["seed"])
        return list(generate_many(a["schema"], 2))
    add("generate_A1", lambda: {"schema": copy.deepcopy(S_A1), "seed": 1234}, genone)

    def dec(fa, a, sh):
        data = _sl(fa, a["schema"], a["value"])
        return fa.schemaless_reader(io.BytesIO(data), a["schema"])
    def dec_excess(fa, a, sh):
        # a stored decimal with more digits than the annotation's precision (bytes written by another writer): rounded to the precision
        data = _sl(fa, "bytes", a["raw"])
        return fa.schemaless_reader(io.BytesIO(data), a["schema"])
    add("decimal_excess_digits_p5", lambda: {"schema": copy.deepcopy(S_DEC5), "raw": (1234567).to_bytes(3, "big", signed=True)}, dec_excess)

    def override_alternating(fa, a, sh):
        # readers of two files whose unions hold different numbers of record branches, created and discarded in turn, with the
        # *_override options: every round must give what the first round gave
        files = []
        for sch, recs in ((a["s2"], a["r2"]), (a["s1"], a["r1"])):
            fo = io.BytesIO()
            fa.writer(fo, sch, recs, sync_marker=b"0123456789abcdef")
            files.append(fo.getvalue())
        def rd(data, **kw):
            return list(fa.reader(io.BytesIO(data), **kw))
        # what the override options mean: s2's union has two record branches (pairs stay), s1's has one record and two named types
        want = [rd(files[0], return_record_name=True), rd(files[0], return_named_type=True), rd(files[1]), rd(files[1], return_named_type=True)]
        first = None
        same = True
        for _ in range(a["rounds"]):
            out = []
            for data in files:
                out.append(rd(data, return_record_name=True, return_record_name_override=True))
                out.append(rd(data, return_named_type=True, return_named_type_override=True))
            if first is None:
                first = out
            if out != want:
                same = False
        return {"first": first, "__must__": same}
    U2 = {"type": "record", "name": "ns.Two", "fields": [{"name": "u", "type": ["null", {"type": "record", "name": "A", "fields": [{"name": "x", "type": "int"}]},
                                                                              {"type": "record", "name": "B", "fields": [{"name": "x", "type": "int"}]}]}]}
    U1 = {"type": "record", "name": "ns.One", "fields": [{"name": "u", "type": ["null", {"type": "record", "name": "A", "fields": [{"name": "x", "type": "int"}]},
                                                                              {"type": "enum", "name": "E", "symbols": ["S"]}]}]}
    add("override_alternating_readers", lambda: {"s1": copy.deepcopy(U1), "r1": [{"u": {"x": 1}}, {"u": "S"}, {"u": None}],
                                                 "s2": copy.deepcopy(U2), "r2": [{"u": ("ns.B", {"x": 2})}, {"u": {"x": 3}}], "rounds": 25}, override_alternating)
    # a float offered where the schema says int (no validator): the outcome is the same whatever was encoded before
    add("write_float_for_int", lambda: {"schema": {"type": "record", "name": "ns.I", "fields": [{"name": "n", "type": "int"}, {"name": "m", "type": "long"}]},
                                        "datum": {"n": 5.0, "m": decimal.Decimal(20)}},
        lambda fa, a, sh: _sl(fa, a["schema"], a["datum"]))
    # a record carrying the "-type" hint, written twice: the caller's dict is not the library's to change
    S_HINT = {"type": "record", "name": "ns.Log", "fields": [{"name": "ev", "type": [
        {"type": "record", "name": "Created", "fields": [{"name": "id", "type": "int"}]},
        {"type": "record", "name": "Deleted", "fields": [{"name": "id", "type": "int"}]}]}]}
    add("write_hinted_record_twice", lambda: {"schema": copy.deepcopy(S_HINT), "datum": {"ev": {"-type": "ns.Deleted", "id": 7}}},
        lambda fa, a, sh: [_sl(fa, a["schema"], a["datum"]), _sl(fa, a["schema"], a["datum"])])

    def dec_noscale(fa, a, sh):
        data = _sl(fa, a["schema"], a["value"])
        return [fa.schemaless_reader(io.BytesIO(data), a["schema"]), canon(fa, a["schema"])]
    add("decimal_without_scale", lambda: {"schema": copy.deepcopy(S_DEC_NOSCALE), "value": {"amounts": [decimal.Decimal("12"), decimal.Decimal("-7")]}}, dec_noscale)

    def resolve_alias(fa, a, sh):
        # a parsed reader schema the application keeps (bare-string aliases): written with, used for resolution, written with again
        pr = sh.setdefault("PRA", fa.parse_schema(a["r"]))

        def wr():
            fo = io.BytesIO()
            fa.writer(fo, pr, [{"id": 1, "pt": {"x": 2}}], sync_marker=b"0123456789abcdef")
            return fo.getvalue()
        before = wr()
        out = fa.schemaless_reader(io.BytesIO(_sl(fa, a["w"], copy.deepcopy(D_A1))), a["w"], pr)
        after = wr()
        return {"read": out, "file": before, "__must__": before == after}
    add("resolve_with_kept_alias_reader", lambda: {"w": copy.deepcopy(S_A1), "r": copy.deepcopy(S_READER_ALIAS)}, resolve_alias)
    add("decimal_p5", lambda: {"schema": copy.deepcopy(S_DEC5), "value": decimal.Decimal("123.45")}, dec)
    add("decimal_p20", lambda: {"schema": copy.deepcopy(S_DEC20), "value": decimal.Decimal("123456789012345678.91")}, dec)

    def load(fa, a, sh):
        from fastavro.schema import load_schema
        d = tempfile.mkdtemp(dir=tmpdir)
        try:
            for name, sch in a["files"].items():
                with open(os.path.join(d, name + ".avsc"), "w") as f:
                    json.dump(sch, f)
            return canon(fa, load_schema(os.path.join(d, a["top"] + ".avsc")))
        finally:
            shutil.rmtree(d, ignore_errors=True)
    add("load_repo", lambda: {"top": "ns.Top", "files": {
        "ns.Top": {"type": "record", "name": "Top", "namespace": "ns", "fields": [{"name": "a", "type": "Point"}, {"name": "b", "type": "ns.Point"}]},
        "ns.Point": {"type": "record", "name": "ns.Point", "fields": [{"name": "only", "type": "string"}]}}}, load)

    # one repository object kept by the application and used for several loads (per-type files written once per run)
    repodir = tempfile.mkdtemp(dir=tmpdir)
    REPO_FILES = {
        "geo.Leaf": {"type": "record", "name": "geo.Leaf", "fields": [{"name": "v", "type": "int"}]},
        "ev.A": {"type": "record", "name": "ev.A", "fields": [{"name": "leaf", "type": "geo.Leaf"}]},
        "ev.B": {"type": "record", "name": "ev.B", "fields": [{"name": "leaf", "type": "geo.Leaf"}, {"name": "n", "type": "long", "default": 1}]},
        "ev.Top": {"type": "record", "name": "ev.Top", "fields": [{"name": "a", "type": "ev.A"}, {"name": "b", "type": "ev.B"}]}}
    for name, sch in REPO_FILES.items():
        with open(os.path.join(repodir, name + ".avsc"), "w") as f:
            json.dump(sch, f)

    def load_kept_repo(fa, a, sh):
        from fastavro.schema import load_schema
        from fastavro.repository.flat_dict import FlatDictRepository
        repo = sh.setdefault("REPO", FlatDictRepository(repodir))
        return canon(fa, load_schema(a["name"], repo=repo))
    add("load_B_kept_repo", lambda: {"name": "ev.B"}, load_kept_repo)
    add("load_Top_kept_repo", lambda: {"name": "ev.Top"}, load_kept_repo)

    # a parsed top-level union (a list) the application keeps: written with twice, a branch needs the caller's name table
    def write_parsed_union(fa, a, sh):
        if "PU" not in sh:
            names = {}
            fa.parse_schema({"type": "enum", "name": "ns.Shade", "symbols": ["DARK", "LIGHT"]}, names)
            sh["PU"] = fa.parse_schema(["null", {"type": "record", "name": "ns.Paint", "fields": [{"name": "shade", "type": "ns.Shade"}]}], names)
        pu = sh["PU"]
        out = []
        for _ in range(2):
            fo = io.BytesIO()
            try:
                fa.writer(fo, pu, [{"shade": "LIGHT"}, None], sync_marker=b"0123456789abcdef")
                out.append(fo.getvalue())
            except Exception as e:  # noqa: BLE001 - the second use must do what the first did
                out.append(type(e).__name__)
        from fastavro.validation import validate
        try:
            valid = validate({"shade": "DARK"}, pu, raise_errors=False)
        except Exception as e:  # noqa: BLE001
            valid = type(e).__name__
        return {"file": out[0], "valid": valid, "__must__": isinstance(out[0], bytes) and out[0] == out[1] and valid is True}
    add("write_kept_parsed_union", lambda: {}, write_parsed_union)

    def interleaved(fa, a, sh):
        fa_w = io.BytesIO()
        fa.writer(fa_w, a["s1"], a["r1"], sync_marker=b"0123456789abcdef")
        fb_w = io.BytesIO()
        fa.writer(fb_w, a["s2"], a["r2"], sync_marker=b"0123456789abcdef")
        seq_a = list(fa.reader(io.BytesIO(fa_w.getvalue())))
        seq_b = list(fa.reader(io.BytesIO(fb_w.getvalue())))
        ra = fa.reader(io.BytesIO(fa_w.getvalue()))
        rb = fa.reader(io.BytesIO(fb_w.getvalue()))
        out_b = list(rb)
        out_a = list(ra)
        # two readers alive at once give what each gives alone
        return {"a": out_a, "b": out_b, "__must__": out_a == seq_a and out_b == seq_b}
    add("interleaved_readers", lambda: {"s1": copy.deepcopy(S_A1), "r1": [copy.deepcopy(D_A1), copy.deepcopy(D_A1b)],
                                        "s2": copy.deepcopy(S_A2), "r2": [copy.deepcopy(D_A2)]}, interleaved)
    # the same enum full name with the same symbols in another order (wave 7: a memo keyed by name + symbol *set*); write, then read back
    def enum_rt(fa, a, sh):
        out = [_sl(fa, a["schema"], d) for d in a["data"]]
        back = [fa.schemaless_reader(io.BytesIO(b), a["schema"]) for b in out]
        return {"bytes": out, "back": back, "valid": [fa.validate(d, a["schema"], raise_errors=False) for d in a["data"]]}
    for tag, syms in (("rgb", ["RED", "GREEN", "BLUE"]), ("bgr", ["BLUE", "GREEN", "RED"])):
        add("enum_same_name_" + tag, lambda syms=syms: {"schema": {"type": "record", "name": "ns.Paint", "fields": [
            {"name": "c", "type": {"type": "enum", "name": "Hue", "symbols": list(syms)}},
            {"name": "cs", "type": {"type": "array", "items": "Hue"}}]},
            "data": [{"c": "BLUE", "cs": ["RED", "GREEN"]}, {"c": "RED", "cs": []}]}, enum_rt)
    # a writer schema that refers to a name it does not define: must fail the same way whatever was read before
    add("read_dangling_ref", lambda: {"schema": {"type": "record", "name": "ns.Uses", "fields": [{"name": "p", "type": "ns.Point"}]}},
        lambda fa, a, sh: fa.schemaless_reader(io.BytesIO(b"\x02\x04"), a["schema"]))
    return calls


def project(x):
    """Outcome -> JSON-able structure (values through the projection)."""
    return proj.pv(_plain(x))


def _plain(x):
    if isinstance(x, dict):
        return {str(k): _plain(v) for k, v in x.items()}
    if isinstance(x, (list, tuple)):
        return [_plain(v) for v in x]
    if isinstance(x, set):
        return sorted(_plain(v) for v in x)
    return x


def snapshot_args(a):
    return project({k: v for k, v in a.items()})


def run_call(fa, calls, name, shared):
    mk, fn = calls[name]
    args = mk()
    before = snapshot_args(args)
    must = True
    try:
        out = fn(fa, args, shared)
        if isinstance(out, dict) and "__must__" in out:
            must = bool(out.pop("__must__"))
        res = {"ok": True, "v": project(out)}
    except Exception as e:  # noqa: BLE001
        res = {"ok": False, "exc": proj.pexc(e)["exc"], "msg": proj.cps(str(e)[:80])}
    after = snapshot_args(args)
    res["must"] = must
    return res, before, after


def fresh_library(repo):
    env.bind(repo)
    import fastavro
    return fastavro


def run_c17(ctx, fa0):
    tmpdir = tempfile.mkdtemp(prefix="verif_c17_", dir=core.tlc.WORK)
    try:
        calls = build_calls(tmpdir)
        names = sorted(calls)
        fresh = {}
        for nm in names:
            fa = fresh_library(ctx.repo)
            fresh[nm] = run_call(fa, calls, nm, {})[0]
        # calls meant to fail fail, all others succeed in a fresh library (a call that always fails exercises nothing)
        meant_to_fail = {"parse_bad", "read_dangling_ref", "write_strict_A2_extra", "write_float_for_int"}
        for nm in names:
            if fresh[nm]["ok"] == (nm in meant_to_fail):
                ctx.machinery.append("call %s %s in a fresh library" % (nm, "succeeds" if fresh[nm]["ok"] else "fails: %s" % fresh[nm].get("exc", [""])[0]))
        rnd = ctx.sub_rnd("c17")
        hist = [list(h) for h in itertools.product(names, repeat=2)]
        nrand = 150 if ctx.quick() else 3000
        for _ in range(nrand):
            hist.append([rnd.choice(names) for _ in range(rnd.choice([3, 4, 5, 6]))])
        if not ctx.quick():
            hist += [list(h) for h in itertools.product(names, repeat=3) if rnd.random() < 0.2]
        cases = []
        for i, h in enumerate(hist):
            fa = fresh_library(ctx.repo)
            shared = {}
            evs = []
            for nm in h:
                res, before, after = run_call(fa, calls, nm, shared)
                evs.append({"name": nm, "res": res, "fresh": fresh[nm], "args_before": before, "args_after": after})
            cases.append({"id": "H%d" % i, "op": "session", "calls": evs, "names": h})
    finally:
        shutil.rmtree(tmpdir, ignore_errors=True)
        fresh_library(ctx.repo)
    ctx.extra["alphabet"] = names
    ctx.extra["exhaustive_length"] = 2
    ctx.exhaustive = False
    ctx.rule = ("alphabet of %d concrete calls chosen to collide (two schemas defining ns.Event/Point/Color differently, one enum name with its symbols in two orders, parsed-schema objects reused "
                "across calls, a container write and a parse that fail midway, decimals of different precision, JSON with defaults, generate, load, "
                "resolution, strict writes, two readers opened before either is consumed); every history of length 2 plus seeded random histories of "
                "length 3-6, each run in a freshly imported library; every result compared with the same call made first in a fresh library, arguments "
                "compared before/after; non-trivial = >= 2 calls sharing a type name or object") % len(names)
    core.judge_cases(ctx, cases, "session", ("C17.",), nontrivial_fn=lambda c: len(c["names"]) >= 2,
                     describe=lambda c: "history=%s" % c["names"])
    for c in cases[:2] + cases[-1:]:
        ctx.sample({"history": c["names"], "results": [("ok" if e["res"]["ok"] else e["res"]["exc"][0]) for e in c["calls"]]})
