"""C12: raw vs parsed vs piecewise-parsed schemas under every public operation (V direction)."""
import copy
import io
import json
import random

from . import container, core, gen, p_json, p_resolve, proj


def subset_render(g, ir, split, rnd):
    """Render the top schema with the named types in `split` replaced by references, and each split-off type as its own piece
    (nested split-off types referenced too). Returns (pieces in dependency order, top raw)."""
    pieces = []
    done = set()

    def ref_spelling(full, ns):
        tns = g.defs[full]["ns"]
        if tns == ns and tns != "" and rnd.random() < 0.5:
            return full.rsplit(".", 1)[1]
        return full

    def render(t, ns, top):
        k = t["k"]
        if k == "prim":
            return t["name"]
        if k == "ref":
            return ref_spelling(t["full"], ns)
        if k == "array":
            return {"type": "array", "items": render(t["items"], ns, False)}
        if k == "map":
            return {"type": "map", "values": render(t["values"], ns, False)}
        if k == "union":
            return [render(b, ns, False) for b in t["br"]]
        if not top and t["full"] in split:
            make_piece(t)
            return ref_spelling(t["full"], ns)
        tns = t["ns"]
        simple = t["full"].rsplit(".", 1)[-1]
        d = {"type": "error" if t.get("error") else k}
        if tns == ns and rnd.random() < 0.4:
            d["name"] = simple
        elif tns and rnd.random() < 0.5:
            d["name"] = t["full"]
        else:
            d["name"] = simple
            d["namespace"] = tns
        if t.get("aliases"):
            d["aliases"] = list(t["aliases"])
        if k == "enum":
            d["symbols"] = list(t["syms"])
            if t.get("hasdef"):
                d["default"] = t["default"]
        elif k == "fixed":
            d["size"] = t["size"]
        else:
            d["fields"] = []
            for f in t["fields"]:
                fd = {"name": f["name"], "type": render(f["type"], tns, False)}
                if f["hasdef"]:
                    fd["default"] = f["default"]
                if f.get("aliases"):
                    fd["aliases"] = list(f["aliases"])
                d["fields"].append(fd)
        return d

    def make_piece(t):
        if t["full"] in done:
            return
        done.add(t["full"])
        raw = render(t, "", True)
        pieces.append(raw)

    top = render(ir, "", True)
    return pieces, top


def run_ops(fa, schema, datum, seed, parsed_identity=None, defaulted=(), reader=None, wbytes=None):
    from fastavro import json_reader, json_writer
    from fastavro.schema import to_parsing_canonical_form
    from fastavro.utils import generate_many
    from fastavro.validation import validate
    out = {}

    def attempt(key, fn):
        try:
            out[key] = dict({"ok": True}, **fn())
        except Exception as e:  # noqa: BLE001
            out[key] = {"ok": False, "exc": proj.pexc(e)["exc"], "msg": proj.cps(str(e)[:100])}

    def sl():
        fo = io.BytesIO()
        fa.schemaless_writer(fo, schema, datum)
        return {"bytes": list(fo.getvalue())}
    attempt("sl", sl)
    attempt("slread", lambda: {"v": proj.pv(fa.schemaless_reader(io.BytesIO(bytes(out["sl"]["bytes"])), schema))} if out["sl"]["ok"] else 1 / 0)

    def wfile():
        fo = io.BytesIO()
        fa.writer(fo, schema, [datum], sync_marker=bytes(range(16)))
        data = fo.getvalue()
        r = {"file": list(data)}
        r.update({k: v for k, v in container.describe(data).items() if k in ("hs", "inflate")})
        return r
    attempt("file", wfile)
    attempt("fileread", lambda: {"recs": [proj.pv(r) for r in fa.reader(io.BytesIO(bytes(out["file"]["file"])))]} if out["file"]["ok"] else 1 / 0)

    def wjson():
        fo = io.StringIO()
        json_writer(fo, schema, [datum])
        text = fo.getvalue()
        return {"docs": [proj.pj(json.loads(l)) for l in text.split("\n")] if text else [], "text": proj.cps(text)}
    attempt("json", wjson)
    attempt("jsonread", lambda: {"recs": [proj.pv(r) for r in json_reader(io.StringIO(proj.uncps(out["json"]["text"])), schema)]} if out["json"]["ok"] else 1 / 0)

    def jdrop():
        # fields absent from the JSON text take the defaults of the schema
        text = proj.uncps(out["json"]["text"])
        t2 = "\n".join(json.dumps({k: v for k, v in json.loads(l).items() if k not in defaulted}) for l in text.split("\n"))
        return {"recs": [proj.pv(r) for r in json_reader(io.StringIO(t2), schema)]}
    if defaulted:
        attempt("jsondrop", jdrop if out["json"]["ok"] else lambda: 1 / 0)
    if reader is not None and wbytes is not None:
        # data written under the whole writer schema, read with writer and reader schema both in this form
        def res():
            fi = io.BytesIO(wbytes)
            v = fa.schemaless_reader(fi, schema, reader)
            return {"v": proj.pv(v), "pos": fi.tell()}
        attempt("resolve", res)

        def jres():
            # the JSON text written under this form, read with writer and reader schema both in this form
            return {"recs": [proj.pv(r) for r in json_reader(io.StringIO(proj.uncps(out["json"]["text"])), schema, reader)]}
        if out.get("json", {}).get("ok"):
            attempt("jsonresolve", jres)
    attempt("validate", lambda: {"v": proj.pv(validate(datum, schema, raise_errors=False))})
    attempt("canon", lambda: {"text": proj.cps(to_parsing_canonical_form(schema))})

    def g():
        random.seed(seed)
        return {"values": [proj.pv(v) for v in generate_many(schema, 2)]}
    attempt("gen", g)
    return out


def forms_case(fa, cid, g, ir, rnd):
    raw = g.render(ir)
    c = {"id": cid, "op": "forms", "schema": proj.pj(raw), "forms": []}
    try:
        parsed = fa.parse_schema(raw)
    except Exception as e:  # noqa: BLE001
        c["perr"] = proj.pexc(e)["exc"]
        return c
    datum = g.datum(ir, hints=False)
    c["datum"] = proj.pv(datum)
    mono = {}
    fa.parse_schema(raw, mono)
    c["dict_mono"] = [proj.cps(k) for k in mono]
    seed = rnd.randint(0, 2 ** 31)
    named = [n for n in g.defs if n != ir.get("full")]
    split = set(rnd.sample(named, rnd.randint(1, len(named)))) if named else set()
    if rnd.random() < 0.6:
        split |= {n for n in named if n.rsplit(".", 1)[-1].startswith("Ov")}      # the records of an overlapping union go by name together
    if any(d["ns"] for d in g.defs.values()):
        # a null-namespace type cannot be referred to by name from inside a namespace: it stays inline
        split = {n for n in split if g.defs[n]["ns"] != ""}
    # a piece is parsed before the top: whatever it refers to (and does not define itself) has to be a piece too
    splittable = {n for n in named if not (any(d["ns"] for d in g.defs.values()) and g.defs[n]["ns"] == "")}
    for _ in range(len(named) + 2):
        changed = False
        for n in sorted(split):
            sub = p_resolve.positions(g.defs[n])
            inside = {x["full"] for _, _, x in sub if x["k"] in ("record", "enum", "fixed")}
            needs = {x["full"] for _, _, x in sub if x["k"] == "ref" and x["full"] not in inside and x["full"] != ir.get("full")}
            if any(x["k"] == "ref" and x["full"] == ir.get("full") for _, _, x in sub) or not needs <= splittable:
                split.discard(n)            # it refers to the top itself or to a type that cannot be a piece: stays inline
                changed = True
            elif not needs <= split:
                split |= needs
                changed = True
        if not changed:
            break
    forms = [("raw", raw), ("parsed", parsed)]
    c["split"] = sorted(split)
    if split:
        pieces, top = subset_render(g, ir, split, rnd)
        shared = {}
        try:
            for pc in pieces:
                if c["id"][-1] in "02468":
                    # every other case: a piece that stands on its own is parsed on its own first and then registered, already parsed,
                    # into the shared dictionary (which by then holds other names)
                    try:
                        alone = fa.parse_schema(pc)
                    except Exception:  # noqa: BLE001 - it refers to other pieces
                        alone = pc
                    fa.parse_schema(alone, shared)
                else:
                    fa.parse_schema(pc, shared)
            piecewise = fa.parse_schema(top, shared)
            forms.append(("piecewise", piecewise))
            c["dict_after"] = [proj.cps(k) for k in shared]
        except Exception as e:  # noqa: BLE001 - the pieces are valid by construction (TLC re-checks via the monolithic schema)
            c["piecewise_error"] = proj.cps(repr(e)[:200])
    defaulted = [f["name"] for f in ir["fields"] if f["hasdef"] and not p_json.contains_record(f["type"], g)] if ir["k"] == "record" else []
    if defaulted and isinstance(datum, dict):
        c["dropped"] = proj.pv({k: v for k, v in datum.items() if k not in defaulted})
    else:
        defaulted = []
    # a reader schema derived by 1-2 compatible evolution steps, in the same three forms
    rforms = {}
    try:
        gr = gen.Gen(rnd)
        rir = copy.deepcopy(ir)
        gr.defs = {n_["full"]: n_ for _, _, n_ in p_resolve.positions(rir) if n_["k"] in ("record", "enum", "fixed")}
        steps = []
        for _ in range(rnd.choice([1, 2])):
            rir, st = p_resolve.evolve(rnd, gr, rir, True)
            if st:
                steps.append(st)
        rraw = gr.render(rir)
        rforms["raw"] = rraw
        rforms["parsed"] = fa.parse_schema(rraw)
        rnamed = [n for n in gr.defs if n != rir.get("full")]
        if rnamed and "piecewise" in dict(forms):
            rsplit = set(rnd.sample(rnamed, rnd.randint(1, len(rnamed))))
            rpieces, rtop = subset_render(gr, rir, rsplit, rnd)
            rshared = {}
            for pc in rpieces:
                fa.parse_schema(pc, rshared)
            rforms["piecewise"] = fa.parse_schema(rtop, rshared)
        fo = io.BytesIO()
        fa.schemaless_writer(fo, raw, datum)
        wbytes = fo.getvalue()
        c["rschema"] = proj.pj(rraw)
        c["rsteps"] = steps
        c["wbytes"] = list(wbytes)
    except Exception:  # noqa: BLE001 - no reader for this case (an evolution step produced something unparsable): the resolve clause is skipped
        rforms = {}
        wbytes = None
    for name, sch in forms:
        ops = run_ops(fa, sch, datum, seed, defaulted=defaulted, reader=rforms.get(name) if "rschema" in c else None, wbytes=wbytes)
        ops["form"] = name
        try:
            again = fa.parse_schema(sch) if name == "parsed" else None
        except Exception:  # noqa: BLE001 - parsing an already parsed schema failed: not "returned unchanged"
            again = ("<<raised>>",)
        # "returns it unchanged": the same object for records (which carry the parsed marker), an equal schema otherwise
        ops["identity"] = (again is sch or (not isinstance(sch, dict) or "__fastavro_parsed" not in sch) and again == sch) if name == "parsed" else True
        c["forms"].append(ops)
    return c


def run_c12(ctx, fa):
    rnd = ctx.sub_rnd("c12")
    n = 600 if ctx.quick() else 4000
    cases = []
    tries = 0
    while len(cases) < n and tries < 8 * n:
        tries += 1
        mode = rnd.random()
        g = gen.Gen(rnd, logical=False, max_depth=rnd.choice([2, 2, 3]), big=False, recursive=False, ns=mode < 0.7)
        g.json_safe = True
        if rnd.random() < 0.15:
            g.overlap_bias = 0.6
        if mode < 0.7:
            g.pick_ns = lambda enclosing, _g=g: ("" if enclosing and _g.r.random() < 0.1 else
                                                 _g.r.choice(["a", "a", "a.b", "x.y"]) if _g.r.random() < 0.5 or not enclosing else enclosing)
        ir = g.schema(top=rnd.choice(["record"] * 9 + ["union", "array"]))
        if len(g.defs) < 1:
            continue
        try:
            c = forms_case(fa, "F%d" % len(cases), g, ir, rnd)
        except (gen.NoDatum, RecursionError):
            continue
        feats = p_json.features(ir, g) if hasattr(g, "open_seen") else None
        g.open_seen = {}
        feats = p_json.features(ir, g)
        c["json_known"] = bool(feats["empty_record"] or feats["recursive"])
        c["nsplit"] = len(c.get("split", []))
        cases.append(c)
    ctx.rule = ("seeded schemas with named types; forms: raw, parse_schema(raw), and every named type of a random non-empty subset parsed separately "
                "against a shared named-schema dictionary and referred to by name; operations: schemaless write/read, container write/read, JSON "
                "write/read, validate, canonical form, generate_many under a fixed random.seed; TLC compares every result with the spec value computed "
                "from the monolithic schema; non-trivial = >= 1 split-off type")
    core.judge_cases(ctx, cases, "forms", ("C12.",), nontrivial_fn=lambda c: c.get("nsplit", 0) >= 1, sig_fn=sig_c12,
                     describe=lambda c: "split=%s schema=%s" % (c.get("split"), json.dumps(proj.unpj(c["schema"]))[:200]))
    ctx.extra["cases_with_piecewise_form"] = sum(1 for c in cases if len(c["forms"]) == 3)
    for c in cases[:2]:
        ctx.sample({"schema": proj.unpj(c["schema"]), "split_off": c.get("split"), "forms": [f["form"] for f in c["forms"]]})


def sig_c12(c, clause):
    top = proj.unpj(c["schema"])
    return {"form": clause.rsplit(".", 1)[-1], "top_record": isinstance(top, dict) and top.get("type") in ("record", "error")}
