"""C11 / C13 / C14: parse_schema, canonical form, fingerprints (V direction)."""
import copy
import hashlib
import io
import json

from . import core, gen, proj


# ------------------------------------------------------------------------------------ walking raw schemas
def walk_types(node, path=()):
    """Yield (path, node) for every type position of a raw schema (unions, field types, items, values, named definitions)."""
    yield path, node
    if isinstance(node, list):
        for i, b in enumerate(node):
            yield from walk_types(b, path + (i,))
    elif isinstance(node, dict):
        t = node.get("type")
        if t in ("record", "error"):
            for i, f in enumerate(node.get("fields", [])):
                yield from walk_types(f["type"], path + ("fields", i, "type"))
        elif t == "array":
            yield from walk_types(node["items"], path + ("items",))
        elif t == "map":
            yield from walk_types(node["values"], path + ("values",))


def get_at(root, path):
    for p in path:
        root = root[p]
    return root


def set_at(root, path, value):
    if not path:
        return value
    parent = get_at(root, path[:-1])
    parent[path[-1]] = value
    return root


PRIMS = gen.PRIMS


def mutate(rnd, raw):
    """One ill-forming mutation of a kind C11 lists, at a random position. Returns (kind, schema) or None."""
    s = copy.deepcopy(raw)
    pos = list(walk_types(s))
    named = [(p, n) for p, n in pos if isinstance(n, dict) and n.get("type") in ("record", "enum", "fixed", "error")]
    enums = [(p, n) for p, n in named if n["type"] == "enum"]
    records = [(p, n) for p, n in named if n["type"] in ("record", "error")]
    fields = [(p + ("fields", i), f) for p, n in records for i, f in enumerate(n.get("fields", []))]
    strs = [(p, n) for p, n in pos if isinstance(n, str)]
    kinds = ["undefined", "redefined", "nameless", "enum-symbol", "enum-default", "default-type", "decimal"]
    rnd.shuffle(kinds)
    for kind in kinds:
        if kind == "undefined" and strs:
            p, n = rnd.choice(strs)
            new = rnd.choice(["NoSuchType", "no.such.Type", "Int", "record", "x.y.z.R999"])
            if not p:
                return kind, new
            set_at(s, p, new)
            return kind, s
        if kind == "redefined" and named and (records or isinstance(s, list)):
            p, n = rnd.choice(named)
            dup = copy.deepcopy(n)
            # spell the full name explicitly so that the copy defines the same full name wherever it is put
            full = full_name_of(s, p)
            if full is None:
                continue
            dup["name"] = full
            dup.pop("namespace", None)
            if "." not in full:
                dup["namespace"] = ""
            if dup["type"] in ("record", "error"):
                dup["fields"] = []
            if records:
                rp, rn = rnd.choice(records)
                # only valid as "defined twice" if the copy comes after / beside the original: append a field at the end of the top-most record
                top = records[0][1]
                top.setdefault("fields", []).append({"name": "zz_dup", "type": dup})
            else:
                s.append(dup)
            return kind, s
        if kind == "nameless" and named:
            p, n = rnd.choice(named)
            n.pop("name", None)
            return kind, s
        if kind == "enum-symbol" and enums:
            p, n = rnd.choice(enums)
            bad = rnd.choice(["1abc", "a-b", "", "é", "a b", 5, "A.B", None, "dup", "PAID\n", "\nA", "A\r\n", "A\n\n", " A", "A\u00a0"])
            if bad == "dup":
                n["symbols"] = n["symbols"] + [n["symbols"][0]] if n["symbols"] else ["A", "A"]
            else:
                n["symbols"] = n["symbols"] + [bad]
            return kind, s
        if kind == "enum-default" and enums:
            p, n = rnd.choice(enums)
            n["default"] = rnd.choice(["NOT_A_SYMBOL", "", (n["symbols"][0].lower() if n["symbols"] else "a") + "_x"])
            return kind, s
        if kind == "default-type" and records and rnd.random() < 0.55:
            # a new optional field ["null", <simple name of a type of the same namespace defined in an earlier field>] with a default that
            # matches neither branch: the check has to resolve the simple name in the enclosing namespace
            cands = []
            for rp, rn in records:
                fr = full_name_of(s, rp)
                if not fr or "." not in fr:
                    continue
                for i, f_ in enumerate(rn.get("fields", [])):
                    t_ = f_.get("type")
                    if isinstance(t_, dict) and t_.get("type") in ("record", "error", "enum", "fixed"):
                        fn = full_name_of(s, rp + ("fields", i, "type"))
                        if fn and "." in fn and fn.rsplit(".", 1)[0] == fr.rsplit(".", 1)[0]:
                            cands.append((rn, fn.rsplit(".", 1)[1]))
            if cands:
                rn, simple = rnd.choice(cands)
                errs = [x for x in cands if any(isinstance(f_.get("type"), dict) and f_["type"].get("type") == "error"
                                                and f_["type"].get("name", "").rsplit(".", 1)[-1] == x[1] for f_ in x[0].get("fields", []))]
                if errs and rnd.random() < 0.7:
                    rn, simple = rnd.choice(errs)           # a record declared "error" is a record for this check too
                if rnd.random() < 0.5:
                    for f_ in rn.get("fields", []):
                        t_ = f_.get("type")
                        if isinstance(t_, dict) and t_.get("type") == "record" and t_.get("name", "").rsplit(".", 1)[-1] == simple:
                            t_["type"] = "error"          # the same type declared with the "error" keyword
                rn["fields"].append({"name": "zz_byname", "type": ["null", simple] if rnd.random() < 0.5 else simple,
                                     "default": rnd.choice([5, True, [1], 2.5])})
                return kind, s
        if kind == "default-type" and fields:
            p, f = rnd.choice(fields)
            # half of the time a field whose type is a union with a by-name branch (the check has to look the name up)
            byname = [(p_, f_) for p_, f_ in fields if isinstance(f_.get("type"), list)
                      and any(isinstance(b, str) and b not in gen.PRIMS for b in f_["type"])]
            if byname and rnd.random() < 0.5:
                p, f = rnd.choice(byname)
            bad = wrong_default(rnd, f["type"], s, p)
            if bad is NOGOOD:
                continue
            f["default"] = bad
            return kind, s
        if kind == "decimal":
            cands = [(p, n) for p, n in pos if n in ("bytes",) or (isinstance(n, dict) and n.get("type") in ("bytes", "fixed") and "logicalType" not in n)]
            if not cands:
                continue
            p, n = rnd.choice(cands)
            if n == "bytes":
                n = {"type": "bytes"}
                if not p:
                    s = n
                else:
                    set_at(s, p, n)
            n["logicalType"] = "decimal"
            which = rnd.choice(["negp", "fracp", "strp", "negs", "fracs", "sgtp", "toobig"])
            if which == "toobig" and n["type"] != "fixed":
                which = "sgtp"
            if which == "negp":
                n["precision"] = -rnd.randint(1, 5)
            elif which == "fracp":
                n["precision"] = 2.5
            elif which == "strp":
                n["precision"] = "4"
            elif which == "negs":
                n["precision"], n["scale"] = 5, -1
            elif which == "fracs":
                n["precision"], n["scale"] = 5, 1.5
            elif which == "sgtp":
                n["precision"], n["scale"] = 3, 4
            else:
                size = n["size"]
                import math
                maxp = int(math.floor(math.log10(2) * (8 * size - 1))) if size else 0
                n["precision"] = maxp + 1
                n["scale"] = 0
            if n["type"] == "fixed" and which != "toobig":
                if n["size"] < 2:
                    continue
                if which in ("negs", "fracs"):
                    n["precision"] = 2
                if which == "sgtp":
                    n["precision"], n["scale"] = 1, 2
            return kind, s
    return None


NOGOOD = object()


def full_name_of(root, path):
    """Full name of the named type at path, by the specification's rules (harness side; TLC re-derives it)."""
    ns = ""
    node = root
    cur = ()
    chain = [((), root)]
    for p in path:
        node = node[p]
        cur = cur + (p,)
        chain.append((cur, node))
    for _, n in chain:
        if isinstance(n, dict) and n.get("type") in ("record", "error", "enum", "fixed") and isinstance(n.get("name"), str):
            name = n["name"]
            if "." in name:
                full = name
                ns2 = name.rsplit(".", 1)[0]
            else:
                ns2 = n.get("namespace", ns)
                full = ns2 + "." + name if ns2 else name
            if n is chain[-1][1]:
                return full
            if n.get("type") in ("record", "error"):
                ns = ns2
    return None


def wrong_default(rnd, t, root, path):
    """A JSON value whose type cannot match field type t (any branch for unions); NOGOOD when every JSON kind could match."""
    kinds = json_kinds(t, root)
    if kinds is None:
        return NOGOOD
    allk = {"null": None, "bool": True, "int": 7, "float": 1.5, "str": "zzz", "arr": [1], "obj": {"q": 1}}
    bad = [v for k, v in allk.items() if k not in kinds]
    # a string offered to float/double is left out (NaN/Infinity spellings make that case unspecified)
    if "float" in kinds:
        bad = [v for v in bad if not isinstance(v, str)]
    if not bad:
        return NOGOOD
    return rnd.choice(bad)


def json_kinds(t, root):
    if isinstance(t, list):
        out = set()
        for b in t:
            k = json_kinds(b, root)
            if k is None:
                return None
            out |= k
        return out
    if isinstance(t, dict):
        tt = t.get("type")
        if tt in ("record", "error", "map"):
            return {"obj"}
        if tt == "array":
            return {"arr"}
        if tt in ("enum", "fixed"):
            return {"str"}
        t = tt
    if t == "null":
        return {"null"}
    if t == "boolean":
        return {"bool"}
    if t in ("int", "long"):
        return {"int"}
    if t in ("float", "double"):
        return {"int", "float"}
    if t in ("string", "bytes"):
        return {"str"}
    # by-name reference: the definition is a record (JSON object) or an enum / fixed (JSON string) - both excluded from the wrong defaults
    return {"obj", "str"} if isinstance(t, str) else None


# ------------------------------------------------------------------------------------ C11
def parse_case(fa, cid, raw, kind=None):
    c = {"id": cid, "op": "parse", "schema": proj.pj(raw), "mut": kind or ""}
    ns = {}
    try:
        parsed = fa.parse_schema(raw, ns)
        c["res"] = {"ok": True, "names": [proj.cps(k) for k in ns.keys()], "parsed": proj.pj(proj.strip_parsed(parsed))}
    except Exception as e:  # noqa: BLE001
        c["res"] = {"ok": False, "exc": proj.pexc(e)["exc"], "msg": proj.cps(str(e)[:160])}
    return c


def jsonable(x):
    try:
        proj.pj(x)
        return True
    except ValueError:
        return False


def run_c11(ctx, fa):
    rnd = ctx.sub_rnd("c11")
    n = 1500 if ctx.quick() else 10000
    cases = []
    while len(cases) < n:
        g = gen.Gen(rnd, logical=rnd.random() < 0.5, max_depth=rnd.choice([1, 2, 3]), big=False, aliases=rnd.random() < 0.3)
        g.dict_prims_with_defaults = True
        g.empty_enums = True
        ir = g.schema()
        raw = g.render(ir)
        cases.append(dict(parse_case(fa, "p%d" % len(cases), raw), nodes=gen.count_nodes(ir)))
        for _ in range(2):
            m = mutate(rnd, raw)
            if m and jsonable(m[1]):
                cases.append(dict(parse_case(fa, "p%d" % len(cases), m[1], m[0]), nodes=gen.count_nodes(ir)))
    ctx.rule = ("valid schemas from the seeded generator (nested namespaces, dotted / explicit / inherited names, references before and after nested "
                "definitions, recursion, defaults, aliases, logical annotations) and, for each, single ill-forming mutations of the kinds C11 lists at a "
                "random position; non-trivial = >= 1 named type and >= 2 nodes; distinct by SHA-256 of the schema")
    core.judge_cases(ctx, cases, "parse", ("C11.",), nontrivial_fn=lambda c: c["nodes"] >= 2,
                     sig_fn=sig_c11, describe=lambda c: "mut=%s schema=%s" % (c["mut"], json.dumps(proj.unpj(c["schema"]))[:220]))
    ctx.extra["mutations"] = {}
    for c in cases:
        if c["mut"]:
            ctx.extra["mutations"][c["mut"]] = ctx.extra["mutations"].get(c["mut"], 0) + 1
    for c in cases[:4]:
        ctx.sample({"schema": proj.unpj(c["schema"]), "mutation": c["mut"], "outcome": "accepted" if c["res"]["ok"] else c["res"]["exc"][0]})


def sig_c11(c, clause):
    """Structural signature of a failing C11 case, for known findings."""
    s = proj.unpj(c["schema"])
    sig = {"mut": c["mut"]}
    msg = proj.uncps(c["res"].get("msg", [])) if not c["res"]["ok"] else ""
    sig["top_union"] = isinstance(s, list)
    if clause == "C11.accept":
        sig["msg_class"] = "default" if msg.startswith("Default value") else ("other:" + msg[:40])
    return sig


# ------------------------------------------------------------------------------------ C13
def cosmetic(rnd, g, ir):
    """A cosmetic rewrite: another rendering of the same IR (name spelling, attribute order, dict-form primitives) plus doc/order/custom attributes."""
    raw = g.render(ir)

    def deco(node):
        if isinstance(node, list):
            # union branches: primitives now and then in object form with an attribute of their own
            return [({"type": b, "avro.java.string": "String"} if isinstance(b, str) and b in PRIMS and rnd.random() < 0.4 else deco(b)) for b in node]
        if isinstance(node, dict):
            d = {k: (deco(v) if k in ("items", "values") else v) for k, v in node.items()}
            if d.get("type") in ("record", "error"):
                fs = []
                for f in d.get("fields", []):
                    f = dict(f)
                    f["type"] = deco(f["type"])
                    if rnd.random() < 0.3:
                        f["doc"] = "field doc"
                    if rnd.random() < 0.3:
                        f["order"] = rnd.choice(["ascending", "descending", "ignore"])
                    if rnd.random() < 0.2:
                        f["aliases"] = ["old_" + f["name"]]
                    if rnd.random() < 0.2:
                        f["x-custom"] = {"a": [1, 2]}
                    if rnd.random() < 0.15 and "default" in f:
                        del f["default"]
                    fs.append(f)
                d["fields"] = fs
            if d.get("type") in ("record", "error", "enum", "fixed"):
                if rnd.random() < 0.3:
                    d["doc"] = "type doc"
                if rnd.random() < 0.2:
                    d["aliases"] = ["OldName"]
                if rnd.random() < 0.2:
                    d["custom-attr"] = True
            if d.get("type") == "int" and rnd.random() < 0.3 and "logicalType" not in d:
                d["logicalType"] = "date"
            return d
        if node == "long" and rnd.random() < 0.1:
            return {"type": "long", "logicalType": "timestamp-millis"}
        return node
    return deco(raw)


def _names_in(t):
    out = []
    if isinstance(t, list):
        for b in t:
            out += _names_in(b)
    elif isinstance(t, dict):
        if isinstance(t.get("name"), str) and t.get("type") in ("record", "error", "enum", "fixed"):
            out.append(t["name"])
        for k in ("items", "values", "type"):
            if isinstance(t.get(k), (dict, list)):
                out += _names_in(t[k])
        for f in t.get("fields", []) if isinstance(t.get("fields"), list) else []:
            out += _names_in(f.get("type"))
    return out


def _embed_parsed_child(fa, raw):
    """raw with the first self-contained named type that inherits its namespace from a namespaced record replaced by parse_schema(child)."""
    if not (isinstance(raw, dict) and raw.get("type") in ("record", "error")):
        return None
    name = raw.get("name", "")
    ns = name.rsplit(".", 1)[0] if "." in name else raw.get("namespace", "")
    if not ns:
        return None
    for i, f in enumerate(raw.get("fields", [])):
        t = f.get("type")
        # (nothing inside it pins a namespace of its own: parsed alone, "in the null namespace" and "inherits" cannot be told apart)
        if isinstance(t, dict) and t.get("type") in ("record", "enum", "fixed") and "." not in t.get("name", ".") \
                and '"namespace"' not in json.dumps(t) and not any("." in n for n in _names_in(t)):
            try:
                child = fa.parse_schema(copy.deepcopy(t))        # on its own: in the null namespace, for the moment
            except Exception:  # noqa: BLE001 - it refers to something outside itself
                continue
            if not isinstance(child, dict):
                continue
            out = copy.deepcopy(raw)
            out["fields"][i]["type"] = child
            return out
    return None


def run_c13(ctx, fa):
    from fastavro.schema import to_parsing_canonical_form
    rnd = ctx.sub_rnd("c13")
    n = 600 if ctx.quick() else 6000
    cases = []
    tries = 0
    while len(cases) < n and tries < 4 * n:
        tries += 1
        g = gen.Gen(rnd, logical=rnd.random() < 0.3, max_depth=rnd.choice([1, 2, 3]), big=False, aliases=rnd.random() < 0.3)
        g.empty_enums = True
        ir = g.schema()
        raw = g.render(ir)
        c = {"id": "k%d" % len(cases), "op": "canon", "schema": proj.pj(raw), "nodes": gen.count_nodes(ir), "variants": [], "enc": []}
        try:
            text = to_parsing_canonical_form(raw)
        except Exception as e:  # noqa: BLE001
            c["perr"] = proj.pexc(e)["exc"]
            cases.append(c)
            continue
        c["text"] = proj.cps(text)
        try:
            tree2 = json.loads(text)
            c["tree2"] = proj.pj(tree2)
            c["text2"] = proj.cps(to_parsing_canonical_form(tree2))
        except Exception as e:  # noqa: BLE001
            c["tree2"] = proj.pj(None)
            c["text2"] = proj.cps("<<" + type(e).__name__ + ">>")
            tree2 = None
        for _ in range(rnd.choice([1, 2, 3])):
            v = cosmetic(rnd, g, ir)
            try:
                vt = to_parsing_canonical_form(v)
            except Exception as e:  # noqa: BLE001
                vt = "<<" + type(e).__name__ + ">>"
            c["variants"].append({"schema": proj.pj(v), "text": proj.cps(vt)})
        # a named type of the schema parsed on its own beforehand and put back as the parsed object (two calls): the markers it carries are
        # attributes like any other, the canonical form is that of the plain schema
        emb = _embed_parsed_child(fa, raw)
        if emb is not None:
            try:
                vt = to_parsing_canonical_form(emb)
            except Exception as e:  # noqa: BLE001
                vt = "<<" + type(e).__name__ + ">>"
            c["variants"].append({"schema": proj.pj(raw), "text": proj.cps(vt), "kind": "embedded-parsed-child"})
        if tree2 is not None:
            for rep in range(4):
                try:
                    d = g.datum(ir, hints=False, omit=(rep == 0))      # all but the first datum name every field
                    fo = io.BytesIO()
                    fa.schemaless_writer(fo, raw, d)
                    data = fo.getvalue()
                except Exception:  # noqa: BLE001
                    continue
                try:
                    back = {"ok": True, "v": proj.pv(fa.schemaless_reader(io.BytesIO(data), tree2))}
                except Exception as e:  # noqa: BLE001
                    back = {"ok": False, "exc": proj.pexc(e)["exc"]}
                # ... and with both schemas given: the original as writer schema, its canonical form as reader schema, and the other way round
                try:
                    back2 = {"ok": True, "v": proj.pv(fa.schemaless_reader(io.BytesIO(data), raw, tree2))}
                except Exception as e:  # noqa: BLE001
                    back2 = {"ok": False, "exc": proj.pexc(e)["exc"]}
                try:
                    back3 = {"ok": True, "v": proj.pv(fa.schemaless_reader(io.BytesIO(data), tree2, raw))}
                except Exception as e:  # noqa: BLE001
                    back3 = {"ok": False, "exc": proj.pexc(e)["exc"]}
                # ... and read with a cosmetic rewrite of the schema as reader schema (dict-form primitives, extra attributes, other spelling)
                back4 = None
                if c["variants"]:
                    try:
                        back4 = {"ok": True, "v": proj.pv(fa.schemaless_reader(io.BytesIO(data), raw, proj.unpj(c["variants"][0]["schema"])))}
                    except Exception as e:  # noqa: BLE001
                        back4 = {"ok": False, "exc": proj.pexc(e)["exc"]}
                ent = {"bytes": list(data), "back": back, "back2": back2, "back3": back3}
                # a datum that names every field, written under the canonical form too: the same bytes
                if rep >= 1:
                    try:
                        fo2 = io.BytesIO()
                        fa.schemaless_writer(fo2, tree2, d)
                        ent["bytes2"] = {"ok": True, "bytes": list(fo2.getvalue())}
                    except Exception as e:  # noqa: BLE001
                        ent["bytes2"] = {"ok": False, "exc": proj.pexc(e)["exc"]}
                if back4 is not None:
                    ent["back4"] = back4
                c["enc"].append(ent)
        cases.append(c)
    ctx.rule = ("seeded valid schemas; for each: fastavro's canonical text against AvroCanon!CanonText, re-application to its own output, 1-3 cosmetic "
                "rewrites (doc, aliases, defaults removed, order, custom and logical attributes, attribute order, name spelling, dict-form primitives), "
                "and data written under the original read under the canonical schema; non-trivial = >= 1 named type or >= 2 nodes")
    from . import p_suite
    p_suite.run(ctx, {"t_canon"}, ("C13.",))
    core.judge_cases(ctx, cases, "canon", ("C13.",), nontrivial_fn=lambda c: c["nodes"] >= 2,
                     describe=lambda c: "schema=%s" % json.dumps(proj.unpj(c["schema"]))[:220])
    for c in cases[:3]:
        ctx.sample({"schema": proj.unpj(c["schema"]), "canonical": proj.uncps(c.get("text", [])), "variants": len(c["variants"])})


# ------------------------------------------------------------------------------------ C14
def _rare_crc_texts(rnd):
    """Texts whose CRC-64-AVRO has zero bytes at either end or a zero nibble pattern (1 in 256 each): found with a throw-away table
    implementation that only SELECTS inputs - the expected value always comes from Rabin!FP in TLC."""
    empty = 0xC15D213AA4D7A795
    table = []
    for i in range(256):
        fp = i
        for _ in range(8):
            fp = (fp >> 1) ^ (empty & -(fp & 1))
        table.append(fp)

    def crc(b):
        fp = empty
        for x in b:
            fp = (fp >> 8) ^ table[(fp ^ x) & 0xFF]
        return fp
    want = {"top": [], "low": [], "top2": []}
    base = rnd.randint(0, 10 ** 6)
    for i in range(base, base + 400000):
        t = "text%d" % i
        v = crc(t.encode())
        if v >> 56 == 0 and len(want["top"]) < 6:
            want["top"].append(t)
        elif v & 0xFF == 0 and len(want["low"]) < 4:
            want["low"].append(t)
        elif v >> 48 == 0 and len(want["top2"]) < 1:
            want["top2"].append(t)
        if len(want["top"]) >= 6 and len(want["low"]) >= 4:
            break
    return want["top"] + want["low"] + want["top2"]


def run_c14(ctx, fa):
    from . import mcheck
    from fastavro.schema import fingerprint, to_parsing_canonical_form
    mcheck.model_check(ctx, "MC_Rabin", {}, ["InvStep", "InvSeed", "InvLinear"], "rabin")
    import fastavro._schema_common as sc
    rnd = ctx.sub_rnd("c14")
    n = 500 if ctx.quick() else 6000
    fixed = sorted(a for a in hashlib.algorithms_guaranteed if not a.startswith("shake"))
    advertised = sorted(sc.FINGERPRINT_ALGORITHMS)
    ctx.extra["advertised"] = advertised
    algs = ["CRC-64-AVRO"] * 6 + fixed + ["MD5", "SHA-256"]
    unknown = ["crc-64-avro", "CRC64", "", "sha-256", "Md5", "SHA256 ", "rabin", "sha3", "MD-5", "whirlpool?", "CRC-64-AVRO ",
               "{md5}", "{}", "{0}", "SHA-{256}", "%s", "{algorithm}", "md5\n", "\u00e9",
               "SHA-1", "SHA-384", "SHA-512", "SHA-224", "SHA3-256",
               "new", "scrypt", "pbkdf2_hmac", "file_digest", "algorithms_guaranteed", "__name__", "algorithms_available", "hashlib"]
    texts = ["", "a", "\"int\"", "é", "😀", "\u0000", "a" * 300, "\U0010ffff" * 3]
    texts += _rare_crc_texts(rnd)
    big_text = "€" * 40000 + "a" * 10             # 120 010 bytes of UTF-8 in 40 010 characters (another number of 64 KiB blocks): digests only
    while len(texts) < n // 3:
        x = rnd.random()
        if x < 0.4:
            g = gen.Gen(rnd, max_depth=2, big=False)
            try:
                texts.append(to_parsing_canonical_form(g.render(g.schema())))
            except Exception:  # noqa: BLE001
                pass
        else:
            texts.append("".join(chr(rnd.choice([rnd.randint(0, 127), rnd.randint(128, 0x7ff), rnd.randint(0x800, 0xd7ff), rnd.randint(0xe000, 0xffff),
                                                 rnd.randint(0x10000, 0x10ffff)])) for _ in range(rnd.choice([1, 2, 3, 7, 8, 9, 15, 16, 17, 64]))))
    cases = []
    for i in range(n):
        text = texts[i % len(texts)] if i < 2 * len(texts) else rnd.choice(texts)
        alg = rnd.choice(unknown) if rnd.random() < 0.12 else rnd.choice(algs)
        if i >= n - 4:
            text, alg = big_text, ["MD5", "SHA-256", "sha1", "md5"][n - 1 - i]
        if i < len(algs):
            alg = algs[i]
        elif 8 <= i % len(texts) < 19 and i < len(texts):
            alg = "CRC-64-AVRO"          # the rare-CRC texts are always fingerprinted with the CRC
        c = {"id": "h%d" % i, "op": "fingerprint", "text": proj.cps(text), "alg": proj.cps(alg)}
        data = text.encode()
        c["known"] = [{"name": proj.cps(a), "hex": proj.cps(hashlib.new(a, data).hexdigest())} for a in fixed] \
            if alg != "CRC-64-AVRO" else []
        try:
            c["res"] = {"ok": True, "hex": proj.cps(fingerprint(text, alg))}
        except Exception as e:  # noqa: BLE001
            c["res"] = {"ok": False, "exc": proj.pexc(e)["exc"]}
        cases.append(c)
    ctx.rule = ("texts: empty, ASCII, 2/3/4-byte code points, long, canonical forms of generated schemas; algorithms: CRC-64-AVRO, every fixed-length "
                "hashlib.algorithms_guaranteed name, both Java spellings, unknown names; CRC judged against Rabin!FP (TLA+), digests against hashlib "
                "(standard library = trusted oracle for the digests); non-trivial = non-empty text")
    if not ctx.quick():
        from . import p_suite
        p_suite.run(ctx, {"fingerprint"}, ("C14.",))
    core.judge_cases(ctx, cases, "fp", ("C14.",), nontrivial_fn=lambda c: len(c["text"]) > 0,
                     describe=lambda c: "alg=%s text=%r" % (proj.uncps(c["alg"]), proj.uncps(c["text"])[:40]))
    ctx.assumptions.append("MD5/SHA-*/BLAKE2/SHA3 digests are uninterpreted in the spec; hashlib is the oracle for their values")
    for c in cases[:3]:
        ctx.sample({"text": proj.uncps(c["text"])[:60], "alg": proj.uncps(c["alg"]), "result": proj.uncps(c["res"].get("hex", [])) if c["res"]["ok"] else c["res"]["exc"]})
