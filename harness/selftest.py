"""Non-vacuity: corrupt one logged field of real cases and require TLC to reject exactly the clause that binds that field.
A corruption that TLC does not reject means the clause is not bound to the code's output: machinery failure (exit 2)."""
import copy

from . import proj


def _flip_byte(bs):
    if not bs:
        return [1]
    out = list(bs)
    out[-1] = (out[-1] + 1) % 256
    return out


def _bump_int_value(v):
    """A projected value made different: append a list item / tweak a leaf."""
    v = copy.deepcopy(v)
    p = v.get("p")
    if p == "int":
        v["mag"] = (v["mag"] or [0])
        v["mag"] = [(v["mag"][0] + 1) % 127 + 1] + v["mag"][1:]
    elif p == "bool":
        v["b"] = not v["b"]
    elif p == "str":
        v["cp"] = v["cp"] + [120]
    elif p in ("bytes", "bytearray"):
        v["by"] = v["by"] + [0]
    elif p in ("list", "tuple"):
        v["it"] = v["it"] + [{"p": "none"}]
    elif p == "dict":
        v["ks"] = v["ks"] + [{"p": "str", "cp": [122, 122, 122, 122]}]
        v["vs"] = v["vs"] + [{"p": "none"}]
    elif p == "none":
        v = {"p": "int", "neg": False, "mag": [1]}
    elif p == "float":
        v["sgn"] = 1 - v["sgn"]
    else:
        v = {"p": "none"}
    return v


def corruptions(case):
    """-> list of (label, expected failing clause prefix, corrupted case)"""
    op = case["op"]
    out = []

    def mk(label, clause, fn):
        c = copy.deepcopy(case)
        try:
            if fn(c) is False:
                return
        except (KeyError, IndexError, TypeError):
            return
        out.append((label, clause, c))
    if op == "sl_rt":
        mk("output byte altered", "C02.bytes", lambda c: c["writes"][0].__setitem__("bytes", _flip_byte(c["writes"][0]["bytes"])) if c["writes"] and c["writes"][0]["ok"] else False)
        mk("value read altered", "C01.value", lambda c: c["reads"][0].__setitem__("v", _bump_int_value(c["reads"][0]["v"])) if c["reads"] and c["reads"][0]["ok"] else False)
        mk("stream position shifted", "C01.pos", lambda c: c["reads"][0].__setitem__("pos", c["reads"][0]["pos"] + 1) if c["reads"] and c["reads"][0]["ok"] else False)
    elif op == "file_rt":
        mk("last record dropped from the read", "C04.records", lambda c: c["read"]["recs"].pop() if c.get("read", {}).get("ok") and c["read"]["recs"] else False)
        mk("reported codec altered", "C04.codec", lambda c: c["read"].__setitem__("codec", c["read"]["codec"] + [120]) if c.get("read", {}).get("ok") else False)
        mk("file byte altered in the last sync", "C05.layout", lambda c: c.__setitem__("file", _flip_byte(c["file"])) if c.get("walk") else False)
        mk("block offset shifted", "C05.tile", lambda c: c["br"]["blocks"][0].__setitem__("off", c["br"]["blocks"][0]["off"] + 1) if c.get("br", {}).get("ok") and c["br"]["blocks"] else False)
    elif op == "cuts":
        def end_normally_off_boundary(c):
            for e in c["cuts"]:
                if e[1] == 0 and e[0] > c["hend"]:
                    e[1] = 1
                    return True
            return False
        mk("a truncated read reported as ending normally", "C06.cut.reader", end_normally_off_boundary)

        def corr_ended(c):
            if not c["corr"]:
                return False
            c["corr"][0][2] = 1
        mk("a corrupted sync reported as ending normally", "C06.sync.reader", corr_ended)
    elif op == "whist":
        def drop_flush_block(c):
            fl = [e for e in c["events"] if e["op"] == "flush" and len(e["stream"]) > len(c["events"][0]["stream"])]
            if not fl:
                return False
            e = fl[-1]
            e["stream"] = c["events"][0]["stream"]
            if "readback" in e:
                e["readback"] = {"ok": True, "recs": []}
        mk("stream after the last flush replaced by the bare header", "C07.", drop_flush_block)
    elif op == "parse":
        mk("a defined name missing", "C11.names", lambda c: c["res"]["names"].pop() if c["res"].get("ok") and c["res"]["names"] else False)
        mk("rejection turned into acceptance", "C11.reject", lambda c: c.__setitem__("res", {"ok": True, "names": [], "parsed": c["schema"]}) if not c["res"].get("ok") else False)
    elif op == "canon":
        mk("canonical text altered", "C13.text", lambda c: c.__setitem__("text", c["text"] + [32]) if "text" in c else False)
    elif op == "fingerprint":
        mk("hex digit altered", "C14.", lambda c: c["res"].__setitem__("hex", [(102 if x != 102 else 48) if i == 0 else x for i, x in enumerate(c["res"]["hex"])]) if c["res"].get("ok") else False)
    elif op == "logical":
        mk("stored byte altered", "C16.repr", lambda c: c["write"].__setitem__("bytes", _flip_byte(c["write"]["bytes"])) if c["write"].get("ok") else False)
    elif op == "validate":
        mk("validate verdict inverted", "C10.iff", lambda c: c["quiet"]["v"].__setitem__("b", not c["quiet"]["v"]["b"]) if c["quiet"].get("ok") else False)
    elif op == "union_rt":
        mk("branch index byte altered", "C09.index", lambda c: c["write"].__setitem__("bytes", [(c["write"]["bytes"][0] + 2) % 128] + c["write"]["bytes"][1:]) if c.get("write", {}).get("ok") and c["write"]["bytes"] else False)
    elif op == "resolve":
        mk("resolved value altered", "C08.value.schemaless", lambda c: c["sl"].__setitem__("v", _bump_int_value(c["sl"]["v"])) if c.get("sl", {}).get("ok") else False)
        mk("error turned into a value", "C08.reject.schemaless", lambda c: c.__setitem__("sl", {"ok": True, "v": {"p": "none"}, "pos": len(c["bytes"])}) if not c.get("sl", {}).get("ok", True) else False)
    elif op == "json":
        mk("record read back altered", "C15.roundtrip", lambda c: c["read"]["recs"].__setitem__(0, _bump_int_value(c["read"]["recs"][0])) if c.get("read", {}).get("ok") and c["read"]["recs"] and c["wut"] else False)
        mk("document dropped", "C15.enc", lambda c: c["write"]["docs"].pop() if c.get("write", {}).get("ok") and c["write"]["docs"] else False)
    elif op == "load":
        mk("canonical form altered", "C19.canon", lambda c: c["res"].__setitem__("canon", c["res"]["canon"] + [32]) if c["res"].get("ok") else False)
    elif op == "forms":
        mk("bytes under the parsed form altered", "C12.binary_write.parsed", lambda c: c["forms"][1]["sl"].__setitem__("bytes", _flip_byte(c["forms"][1]["sl"]["bytes"])) if len(c.get("forms", [])) > 1 and c["forms"][1]["sl"].get("ok") else False)
    elif op == "session":
        mk("a result differs from the fresh run", "C17.fresh", lambda c: c["calls"][-1].__setitem__("res", {"ok": False, "exc": ["X"], "must": True}))
    elif op == "generate":
        mk("a generated value dropped", "C20.count", lambda c: c["res"]["values"].pop() if c.get("res", {}).get("ok") and c["res"]["values"] else False)
    return out
