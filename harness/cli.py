"""./check <Cxx> [--tier quick|thorough] [--replay FILE] [--repo DIR]"""
import argparse
import os
import sys
import traceback

from . import core, env, tlc


def registry():
    from . import p_binary, p_layout, p_file, p_cuts, p_writer, p_schema, p_logical, p_data, p_resolve, p_json, p_load, p_forms, p_session, p_threads
    return {
        "C18": p_threads.run_c18,
        "C17": p_session.run_c17,
        "C12": p_forms.run_c12,
        "C19": p_load.run_c19,
        "C15": p_json.run_c15,
        "C08": p_resolve.run_c08,
        "C09": p_data.run_c09,
        "C10": p_data.run_c10,
        "C20": p_data.run_c20,
        "C16": p_logical.run_c16,
        "C11": p_schema.run_c11,
        "C13": p_schema.run_c13,
        "C14": p_schema.run_c14,
        "C07": p_writer.run_c07,
        "C06": p_cuts.run_c06,
        "C04": p_file.run_c04,
        "C05": p_file.run_c05,
        "C03": p_layout.run_c03,
        "C01": p_binary.run_c01,
        "C02": p_binary.run_c02,
    }


def main(argv=None):
    # a changed library may ask for absurd amounts of memory (a length prefix read wrongly): let that fail as MemoryError inside the
    # call (logged like any other exception) instead of taking the machine down
    try:
        import resource
        resource.setrlimit(resource.RLIMIT_AS, (24 << 30, 24 << 30))
    except Exception:  # noqa: BLE001
        pass
    ap = argparse.ArgumentParser()
    ap.add_argument("prop")
    ap.add_argument("--tier", default=os.environ.get("VERIF_TIER", "quick"), choices=["quick", "thorough"])
    ap.add_argument("--replay")
    ap.add_argument("--selftest", action="store_true", help="also corrupt logged fields and require TLC to reject them (always on in the thorough tier)")
    ap.add_argument("--repo", default=os.environ.get("VERIF_REPO", "/repo"))
    a = ap.parse_args(argv)
    seed = int(os.environ.get("VERIF_SEED", "0") or 0)
    reg = registry()
    if a.prop not in reg:
        print("unknown property " + a.prop, file=sys.stderr)
        return 2
    if a.selftest:
        os.environ["VERIF_SELFTEST"] = "1"
    ctx = core.Ctx(a.prop, a.tier, seed, a.repo)
    try:
        bound = env.bind(a.repo)
        ctx.extra["bound_modules"] = bound
        import fastavro
        if a.replay:
            from . import replay
            return replay.run(ctx, fastavro, a.replay)
        reg[a.prop](ctx, fastavro)
        return core.finish(ctx)
    except tlc.MachineryError as e:
        print("MACHINERY-FAILURE: %s" % e, file=sys.stderr)
        return 2
    except Exception:  # noqa: BLE001
        traceback.print_exc()
        print("MACHINERY-FAILURE: harness exception", file=sys.stderr)
        return 2


if __name__ == "__main__":
    sys.exit(main())
