"""The repository's own test-suite as a source of cases: every logged public call is judged by TLC (thorough tier of several checks)."""
import json
import os
import subprocess

from . import core, tlc


def collect(ctx):
    out = os.path.join(tlc.WORK, "suite-%s.ndjson" % ctx.prop)
    if os.path.exists(out):
        os.unlink(out)
    env = dict(os.environ, VERIF_SUITE_LOG=out, PYTHONPATH=core.VERIF + os.pathsep + ctx.repo, PYTHONDONTWRITEBYTECODE="1")
    subprocess.run(["/venv/bin/python", "-m", "pytest", "-q", "-p", "no:cacheprovider", "-p", "harness.suite_plugin", "--timeout=900", "-q"],
                   cwd=ctx.repo, env=env, stdout=subprocess.DEVNULL, stderr=subprocess.DEVNULL)
    if not os.path.exists(out):
        ctx.machinery.append("the test-suite run produced no call log")
        return []
    cases = [json.loads(l) for l in open(out)]
    os.unlink(out)
    return cases


def run(ctx, ops, own):
    """ops: which logged operations this check judges; own: clause prefixes it owns."""
    cases = [c for c in collect(ctx) if c["op"] in ops]
    ctx.extra["suite_calls_judged"] = len(cases)
    if not cases:
        return
    before = len(ctx.machinery)
    core.judge_cases(ctx, cases, "suite", own, describe=lambda c: "test=%s" % c.get("test"))
    # inputs come from arbitrary tests: an evaluation error of the spec on such an input is coverage lost, not a broken check
    crashed = [m for m in ctx.machinery[before:] if "TLC evaluation error" in m or "S.crash" in m]
    ctx.extra["suite_calls_outside_the_spec"] = len(crashed)
    ctx.machinery[before:] = [m for m in ctx.machinery[before:] if m not in crashed]
    ctx.checker_cmds.append("pytest (pinned suite) with harness.suite_plugin: %d logged calls judged" % len(cases))
