"""Binding the implementation under test: the pure-Python fastavro in the repository's working tree."""
import importlib.abc
import os
import sys
import time

REPO = os.environ.get("VERIF_REPO", "/repo")
_COMPILED = {"fastavro._read", "fastavro._write", "fastavro._schema", "fastavro._validation",
             "fastavro._logical_readers", "fastavro._logical_writers"}


class _Blocker(importlib.abc.MetaPathFinder):
    """If somebody builds the Cython mirrors in place, still bind the *_py modules (the anchors)."""

    def find_spec(self, name, path=None, target=None):
        if name in _COMPILED:
            raise ImportError("compiled module blocked by the verification harness: " + name)
        return None


def bind(repo=None):
    """Make `import fastavro` resolve to <repo>; returns the bound module names."""
    global REPO
    if repo:
        REPO = repo
    os.environ["TZ"] = "UTC"
    time.tzset()
    sys.dont_write_bytecode = True
    if not any(isinstance(f, _Blocker) for f in sys.meta_path):
        sys.meta_path.insert(0, _Blocker())
    if sys.path[0] != REPO:
        sys.path.insert(0, REPO)
    for m in [m for m in sys.modules if m == "fastavro" or m.startswith("fastavro.")]:
        del sys.modules[m]
    import fastavro
    import fastavro.read
    import fastavro.write
    import fastavro.schema
    import fastavro.validation
    assert os.path.realpath(fastavro.__file__).startswith(os.path.realpath(REPO)), fastavro.__file__
    return {"fastavro": fastavro.__file__, "read": fastavro.read._read.__name__, "write": fastavro.write._write.__name__,
            "schema": fastavro.schema._schema.__name__, "validation": fastavro.validation._validation.__name__}
