"""C06: container files cut at every byte offset / with altered sync markers (V direction; verdict table judged by TLC)."""
import io

from . import container, core, gen, p_file, proj


def consume(fa, data, kind):
    """Records yielded before the reader stops, and whether it ended normally."""
    out = []
    try:
        if kind == "reader":
            for r in fa.reader(io.BytesIO(data)):
                out.append(r)
        else:
            for b in fa.block_reader(io.BytesIO(data)):
                for r in b:
                    out.append(r)
        return out, 1
    except Exception:  # noqa: BLE001 - any exception counts as "raises"
        return out, 0


class Pool:
    def __init__(self):
        self.items = []
        self.index = {}

    def idx(self, rec):
        p = proj.pv(rec)
        k = core.case_key(p)
        if k not in self.index:
            self.index[k] = len(self.items) + 1      # 1-based for TLA+
            self.items.append(p)
        return self.index[k]


def cut_offsets(rnd, data, w, quick):
    n = len(data)
    if n <= (260 if quick else 1500):
        return list(range(n + 1))
    s = {0, 1, 3, 4, 5, n, n - 1, n - 2, w["hend"], w["hend"] - 1, w["hend"] + 1, w["hend"] - 16, w["hend"] - 17}
    for off, size, c, payload in w["blocks"]:
        for p in (off, off + 1, off + 2, off + size, off + size - 1, off + size - 16, off + size - 17, off + size - 15, off + size // 2):
            for d in (-1, 0, 1):
                s.add(p + d)
    while len(s) < (120 if quick else 400):
        s.add(rnd.randrange(n + 1))
    return sorted(k for k in s if 0 <= k <= n)


def cuts_case(fa, cid, data, rnd, quick):
    w = container.walk(data)
    pool = Pool()
    cuts, bcuts, corr, bcorr = [], [], [], []
    for k in cut_offsets(rnd, data, w, quick):
        for kind, acc in (("reader", cuts), ("block_reader", bcuts)):
            recs, ended = consume(fa, data[:k], kind)
            acc.append([k, ended, [pool.idx(r) for r in recs]])
    for bi, (off, size, c, payload) in enumerate(w["blocks"]):
        s0 = off + size - 16
        positions = range(16) if (not quick or len(w["blocks"]) <= 3) else sorted(rnd.sample(range(16), 5))
        for i in positions:
            for mode in ("flip", "zero", "rand"):
                b = data[s0 + i]
                nb = b ^ (1 << rnd.randrange(8)) if mode == "flip" else (0 if mode == "zero" else rnd.randrange(256))
                if nb == b:
                    nb = b ^ 0x55
                bad = data[:s0 + i] + bytes([nb]) + data[s0 + i + 1:]
                for kind, acc in (("reader", corr), ("block_reader", bcorr)):
                    recs, ended = consume(fa, bad, kind)
                    acc.append([bi + 1, i, ended, [pool.idx(r) for r in recs]])
    case = {"id": cid, "op": "cuts", "file": list(data), "pool": pool.items, "cuts": cuts, "bcuts": bcuts, "corr": corr, "bcorr": bcorr,
            "nblocks": len(w["blocks"])}
    case.update(container.describe(data))
    return case


def make_files(ctx, fa, n, label):
    rnd = ctx.sub_rnd(label)
    codecs = p_file.available_codecs(fa)
    out = []
    tries = 0
    while len(out) < n and tries < n * 6:
        tries += 1
        g = gen.Gen(rnd, logical=False, max_depth=rnd.choice([1, 2]), big=False)
        ir = g.schema(top=rnd.choice(["record"] * 4 + ["prim", "array", "union", "enum"]))
        raw = g.render(ir)
        nrec = rnd.choice([0, 1, 2, 3, 5, 9])
        if rnd.random() < 0.25:
            # blocks whose record count needs a multi-byte varint
            g = gen.Gen(rnd, logical=False, max_depth=1, big=False)
            ir = g.schema(top=rnd.choice(["prim", "enum", "union"]))
            raw = g.render(ir)
            nrec = rnd.choice([64, 70, 130])
        try:
            records = [g.datum(ir, hints=False) for _ in range(nrec)]
            fo = io.BytesIO()
            fa.writer(fo, raw, records, codec=rnd.choice(codecs), sync_interval=rnd.choice([1, 8, 30, 100, 100000] if nrec < 64 else [100000, 300]),
                      sync_marker=bytes(rnd.getrandbits(8) for _ in range(16)))
        except Exception:  # noqa: BLE001 - file production problems are C04's business
            continue
        data = fo.getvalue()
        if len(data) > (900 if ctx.quick() else 4000):
            continue
        out.append(data)
    return out


def run_c06(ctx, fa):
    from . import mcheck, p_layout
    # M: every cut offset and every altered sync byte of every file reachable by the writer model within MaxOps operations
    mcheck.model_check(ctx, "MC_Writer", {"MaxOps": 3 if ctx.quick() else 5, "Policy": "any", "Interval": 3},
                       ["InvFile", "InvCutSafe", "InvSyncSafe"], "cuts", spec="Spec")
    nfiles = 40 if ctx.quick() else 400
    rnd = ctx.sub_rnd("cuts")
    files = make_files(ctx, fa, nfiles, "files")
    cases = [cuts_case(fa, "cut%d" % i, d, rnd, ctx.quick()) for i, d in enumerate(files)]
    ctx.rule = ("container files (all importable codecs, 0-6 blocks, several schema kinds) produced by fastavro.writer; every byte offset "
                "(files up to 260/1500 bytes; structural boundaries +-1 and random offsets beyond) for reader and block_reader; every sync marker "
                "x byte positions x {bit flip, zero, random}; TLC judges the whole outcome table of a file against AvroFile!ParseFile's block "
                "structure; plus every proper prefix of spec-generated schemaless layouts; non-trivial = file with >= 1 block")
    core.judge_cases(ctx, cases, "cuts", ("C06.",), nontrivial_fn=lambda c: c["nblocks"] >= 1,
                     describe=lambda c: "file_len=%d blocks=%d" % (len(c["file"]), c["nblocks"]))
    ctx.extra["cut_outcomes"] = sum(len(c["cuts"]) + len(c["bcuts"]) for c in cases)
    ctx.extra["sync_alterations"] = sum(len(c["corr"]) + len(c["bcorr"]) for c in cases)
    ctx.evaluations += ctx.extra["cut_outcomes"] + ctx.extra["sync_alterations"]
    for c in cases[:2]:
        ctx.sample({"file_len": len(c["file"]), "blocks": c["walk"], "cuts": c["cuts"][:3] + c["cuts"][-3:], "sync_alterations": c["corr"][:3]})
    # schemaless half: every proper prefix of every (spec-generated) schemaless encoding raises
    p_layout.run(ctx, fa, lambda p: p == "C06.")
    big_values(ctx, fa)


def big_values(ctx, fa):
    """Values beyond every internal buffer size (64 KiB, 1 MiB): a cut inside one must raise too, schemaless and inside a container
    block. The encodings are trivial (length varint + payload) and are laid out here, not taken from the library."""
    rnd = ctx.sub_rnd("big")
    for n in (70000, 150000, 1100000 if not ctx.quick() else 66000):
        payload = bytes(rnd.getrandbits(8) for _ in range(257)) * (n // 257 + 1)
        payload = payload[:n]
        z = n << 1
        var = bytearray()
        while z & ~0x7F:
            var.append((z & 0x7F) | 0x80)
            z >>= 7
        var.append(z)
        enc = b"\x02" + bytes(var) + payload          # {"k": 1, "b": <bytes>}: the big value comes last, nothing after it is missed
        schema = {"type": "record", "name": "Big", "fields": [{"name": "k", "type": "int"}, {"name": "b", "type": "bytes"}]}
        offs = sorted(set([1, len(var), len(var) + 1, len(var) + 2, 65535, 65536, 65537, 65536 + len(var), 65537 + len(var), n // 2, n, len(enc) - 1] +
                          [rnd.randrange(1, len(enc)) for _ in range(12)]))
        offs = [o for o in offs if 0 < o < len(enc)]
        bad = None
        for k in offs:
            try:
                v = fa.schemaless_reader(io.BytesIO(enc[:k]), schema)
                bad = (k, "value of %d bytes" % len(v.get("b", b"")))
                break
            except Exception:  # noqa: BLE001
                pass
        try:
            whole = fa.schemaless_reader(io.BytesIO(enc), schema)
            if whole != {"k": 1, "b": payload}:
                bad = bad or (len(enc), "whole input read wrongly")
        except Exception as e:  # noqa: BLE001
            bad = bad or (len(enc), "whole input raised %s" % type(e).__name__)
        ctx.traces += 1
        ctx.mark("big%d" % n, True)
        if bad is None:
            ctx.count("C06.prefix_big", "ok", len(offs))
        else:
            case = {"id": "big%d" % n, "op": "big_prefix", "n": n, "offset": bad[0], "got": bad[1]}
            ctx.count("C06.prefix_big", "fail")
            ctx.violations.append(("C06.prefix_big", case, "bytes value of %d bytes cut at %d: %s" % (n, bad[0], bad[1])))
