"""Harness-side walker of container files: finds block payloads so that they can be inflated with the standard library.
It decides nothing: TLC re-derives every offset with AvroFile!ParseFile and cross-checks (clause H.walker)."""
import bz2
import json
import lzma
import zlib


def _var(b, p):
    n = 0
    s = 0
    while True:
        x = b[p]
        p += 1
        n |= (x & 0x7F) << s
        s += 7
        if not x & 0x80:
            break
    return (n >> 1) ^ -(n & 1), p


def walk(data, strict=True):
    """-> dict(meta={key: bytes}, sync, hend, blocks=[(off, size, count, payload)]) ; raises on malformed framing."""
    if data[:4] != b"Obj\x01":
        raise ValueError("magic")
    p = 4
    meta = {}
    while True:
        c, p = _var(data, p)
        if c == 0:
            break
        if c < 0:
            c = -c
            _, p = _var(data, p)
        if c > len(data):
            raise ValueError("header map count")          # a damaged header: never walk a count the file cannot hold
        for _ in range(c):
            l, p = _var(data, p)
            if not 0 <= l <= len(data) - p:
                raise ValueError("header key length")
            k = data[p:p + l].decode()
            p += l
            l, p = _var(data, p)
            if not 0 <= l <= len(data) - p:
                raise ValueError("header value length")
            meta[k] = data[p:p + l]
            p += l
    sync = data[p:p + 16]
    if len(sync) != 16:
        raise ValueError("sync")
    p += 16
    hend = p
    blocks = []
    error = None
    while p < len(data):
        off = p
        try:
            c, p = _var(data, p)
            l, p = _var(data, p)
        except IndexError:
            error = "cut"
            break
        payload = data[p:p + l]
        if len(payload) != l or l < 0:
            error = "payload"
            break
        p += l
        if data[p:p + 16] != sync:
            error = "block sync"
            break
        p += 16
        blocks.append((off, p - off, c, payload))
    if error and strict:
        raise ValueError(error)
    return {"meta": meta, "sync": sync, "hend": hend, "blocks": blocks, "error": error}


def inflate(codec, payload):
    """Decompress with the standard library only (never fastavro's functions)."""
    if codec == "null":
        return payload
    if codec == "deflate":
        d = zlib.decompressobj(-15)       # raw deflate; trailing bytes after the stream end are ignored as every Avro reader does
        out = d.decompress(payload)
        if not d.eof:
            raise ValueError("deflate stream incomplete")
        return out
    if codec == "bzip2":
        return bz2.decompress(payload)
    if codec == "xz":
        return lzma.decompress(payload)
    raise ValueError("no standard-library decompressor for " + codec)


def compress(codec, data, rnd=None):
    """Independent-writer side: compress a block payload with the standard library."""
    if codec == "null":
        return data
    if codec == "deflate":
        c = zlib.compressobj(6, zlib.DEFLATED, -15)
        return c.compress(data) + c.flush()
    if codec == "bzip2":
        return bz2.compress(data)
    if codec == "xz":
        return lzma.compress(data)
    raise ValueError(codec)


def describe(data):
    """Everything TLC needs beside the bytes: the schema text + its json.loads tree, and the inflate table."""
    from . import proj
    w = walk(data, strict=False)         # a file damaged after the header still gets its header described; TLC judges the rest
    text = w["meta"]["avro.schema"]
    codec = w["meta"].get("avro.codec", b"null").decode()
    table = []
    if codec != "null":
        for off, size, c, payload in w["blocks"]:
            try:
                table.append({"c": list(payload), "d": list(inflate(codec, payload)), "ok": True})
            except Exception:  # noqa: BLE001 - the payload is not a stream of the header's codec: a fact about the file, judged by TLC
                table.append({"c": list(payload), "d": [], "ok": False})
    return {"hs": {"text": list(text), "tree": proj.pj(json.loads(text))}, "inflate": table,
            "walk": [[b[0], b[1], b[2]] for b in w["blocks"]], "hend": w["hend"]}
