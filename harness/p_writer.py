"""C07: histories of write / flush / write_block / reopen on fastavro.write.Writer, validated against AvroWriter (V)."""
import io
import itertools
import os

from . import container, core, gen, p_file, proj

SCHEMA_A = {"type": "record", "name": "ns.A", "fields": [{"name": "a", "type": "int"}, {"name": "b", "type": "string"}]}
SCHEMA_E = {"type": "record", "name": "E", "fields": []}
OTHER_SCHEMA = {"type": "record", "name": "Other", "fields": [{"name": "zzz", "type": "double"}]}


SCHEMA_F = {"type": "record", "name": "F", "fields": [{"name": "a", "type": "int"}, {"name": "f", "type": "float"},
                                                        {"name": "m", "type": {"type": "map", "values": "int"}}]}


SCHEMA_G = {"type": "record", "name": "G", "fields": [{"name": "a", "type": "long"}, {"name": "x", "type": {"type": "fixed", "name": "Four", "size": 4}},
                                                        {"name": "e", "type": {"type": "enum", "name": "En", "symbols": ["P", "Q"]}}]}


def family_ops(fam):
    if fam == "G":
        # non-conforming leaves whose wrongness is a matter of size / membership, after the first field was encoded
        return {"Wok": {"a": 2 ** 40, "x": b"abcd", "e": "Q"}, "Wbad_short": {"a": 1, "x": b"ab", "e": "P"}, "Wbad_long": {"a": 1, "x": b"abcdef", "e": "P"},
                "Wbad_symbol": {"a": 1, "x": b"abcd", "e": "R"}}
    if fam == "F":
        # failing records that raise something other than TypeError / ValueError after some bytes were produced
        return {"Wok": {"a": 3, "f": 1.5, "m": {"k": 1}}, "Wbad_overflow": {"a": 1, "f": 1e39, "m": {}}, "Wbad_attr": {"a": 1, "f": 1.0, "m": [1]},
                "Wbad_struct": {"a": 1, "f": "x", "m": {}}}
    if fam == "A":
        return {"Wsmall": {"a": 1, "b": "x"}, "Wsmall2": {"a": -7, "b": "yé"}, "Wlarge": {"a": 2 ** 31 - 1, "b": "L" * 90},
                "Wbad_late": {"a": 1, "b": 5}, "Wbad_early": {"a": "x", "b": "y"}}
    return {"W0": {}, "W0b": {"extra": 1}, "Wbad": 5}


SHARED_META = {"shared": "one metadata dict handed to every writer an application creates"}


def run_history(fa, cid, schema, ops, codec, interval, donors, validator=False, sync=b"", meta=None, tag=None, path=None):
    """ops: list of ("write", rec) | ("flush",) | ("wblock", donor, bi) | ("reopen", argsdict). Returns the logged case.
    path: run on a real file (created 'w+b', re-opened 'a+b' for every append) instead of a BytesIO."""
    import fastavro._write_py as W
    holder = {"fo": open(path, "w+b") if path else io.BytesIO()}
    fo = holder["fo"]
    events = []
    payload_files = []

    def snap(observe_only=False):
        f = holder["fo"]
        if path:
            if not observe_only:
                f.flush()          # bring the file object's own buffer to the file so that the operation's effect can be seen ...
            with open(path, "rb") as g:
                return list(g.read())
        return list(f.getvalue())

    donor_blocks = {}

    w = W.Writer(fo, schema, codec=codec, sync_interval=interval, validator=validator, sync_marker=sync, metadata=meta if meta is SHARED_META else dict(meta) if meta else None)
    events.append({"op": "create", "raised": False, "stream": snap()})
    state = {"w": w, "peeked": set()}

    def step(op):
        w = state["w"]
        if op[0] == "write":
            raised = False
            try:
                w.write(op[1])
            except Exception:  # noqa: BLE001 - a write that fails is an event of the history, not an error
                raised = True
            events.append({"op": "write", "rec": proj.pv(op[1]), "raised": raised, "stream": snap()})
        elif op[0] == "flush":
            w.flush()
            # ... except after flush(): what the Writer's flush leaves in the file object's buffer is not on the stream
            ev = {"op": "flush", "raised": False, "stream": snap(observe_only=True)}
            try:
                recs = list(fa.reader(io.BytesIO(bytes(ev["stream"]))))
                ev["readback"] = {"ok": True, "recs": [proj.pv(r) for r in recs]}
            except Exception as e:  # noqa: BLE001
                ev["readback"] = {"ok": False, "exc": proj.pexc(e)["exc"]}
            events.append(ev)
        elif op[0] == "wblock":
            d, bi = op[1], op[2]
            peek = op[3] if len(op) > 3 else 0
            if d not in donor_blocks:
                donor_blocks[d] = list(fa.block_reader(io.BytesIO(donors[d])))     # Block objects are reused across copies
            blk = donor_blocks[d][bi]
            if (d, bi) in state["peeked"]:
                peek = 0                       # a Block's records can be iterated once only
            elif peek:
                state["peeked"].add((d, bi))
            if peek == 1:
                list(blk)                      # look at the records before copying the block
            elif peek == 2:
                for _ in blk:
                    break
            w.write_block(blk)
            events.append({"op": "wblock", "raised": False, "donor": d + 1, "bi": bi + 1, "stream": snap()})
        elif op[0] == "reopen":
            w.flush()
            events.append({"op": "flush", "raised": False, "stream": snap()})
            a = op[1]
            if path:
                holder["fo"].close()
                holder["fo"] = open(path, "a+b")
            else:
                holder["fo"].seek(0, 2)
                if a.get("pos"):
                    # the application left the stream somewhere in the middle (it looked at the header, or at the first half)
                    end = holder["fo"].tell()
                    holder["fo"].seek(max(1, min(end - 1, 4 if a["pos"] == "magic" else end // 2)))
            state["w"] = W.Writer(holder["fo"], a.get("schema", schema), codec=a.get("codec", codec), sync_interval=a.get("interval", interval),
                                  validator=validator, sync_marker=a.get("sync", b""), metadata=a.get("meta"))
            events.append({"op": "reopen", "raised": False, "stream": snap()})

    for op in ops:
        try:
            step(op)
        except Exception as e:  # noqa: BLE001 - an operation that must succeed raised: logged, judged by TLC (C07.op_raised)
            events.append({"op": op[0], "raised": True, "exc": proj.pexc(e)["exc"], "stream": snap(), "donor": 1, "bi": 1})
            break
    if path:
        holder["fo"].close()
    case = {"id": cid, "op": "whist", "schema": proj.pj(schema), "codec": proj.cps(codec), "sync": list(sync), "events": events,
            "ops": [o[0] if o[0] != "write" else "write" for o in ops], "tag": tag or ""}
    # inflate table over every stream seen (payloads are stable once written, the final stream has them all unless something went wrong)
    table = []
    seen = set()
    hs = None
    for ev in events:
        try:
            d = container.describe(bytes(ev["stream"]))
        except Exception:  # noqa: BLE001
            continue
        hs = hs or d["hs"]
        for ent in d["inflate"]:
            k = bytes(ent["c"])
            if k not in seen:
                seen.add(k)
                table.append(ent)
    case["hs"] = hs or {"text": [], "tree": proj.pj(None)}
    case["inflate"] = table
    case["donorfiles"] = []
    for dd in donors:
        desc = container.describe(dd)
        case["donorfiles"].append({"file": list(dd), "hs": desc["hs"], "inflate": desc["inflate"]})
    return case


def make_donors(fa, schema, recs_pool, codecs, rnd):
    donors = []
    for codec in codecs:
        fo = io.BytesIO()
        recs = [rnd.choice(recs_pool) for _ in range(rnd.choice([1, 2, 3]))]
        fa.writer(fo, schema, recs, codec=codec, sync_interval=1 if rnd.random() < 0.5 else 10000)
        donors.append(fo.getvalue())
    return donors


def exhaustive(ctx, fa, maxlen):
    """Every history up to maxlen over the alphabet, per family/codec/interval (the bounded universe of DESIGN 3/C07)."""
    rnd = ctx.sub_rnd("ex")
    cases = []
    for fam, schema in (("A", SCHEMA_A), ("E", SCHEMA_E), ("F", SCHEMA_F), ("G", SCHEMA_G)):
        recs = family_ops(fam)
        good = [v for k, v in recs.items() if "bad" not in k]
        donors = make_donors(fa, schema, good, ["null", "deflate"], rnd)
        alphabet = [("write", v) for v in recs.values()] + [("flush",), ("wblock", 0, 0, 1), ("wblock", 1, 0, 0),
                                                             ("reopen", {"schema": OTHER_SCHEMA, "codec": "bzip2", "meta": {"m": "2"}}),
                                                             ("reopen", {"pos": "half"})]
        configs = [("null", 1), ("deflate", 25), ("null", 100000)] if fam == "A" else [("null", 100000)] if fam in ("F", "G") else \
            [("null", 1), ("deflate", 100000)] + [(c_, 100000) for c_ in ("xz", "bzip2") if c_ in p_file.available_codecs(fa)]
        for codec, interval in configs:
            for n in range(1, maxlen + 1):
                for seq in itertools.product(alphabet, repeat=n):
                    ops = list(seq) + [("flush",)]
                    cases.append(run_history(fa, "x%d" % len(cases), schema, ops, codec, interval, donors,
                                             sync=bytes(range(16)), tag="exhaustive-%s-%s-%d" % (fam, codec, interval)))
    return cases


def randomised(ctx, fa, n, maxops):
    import tempfile
    rnd = ctx.sub_rnd("rnd")
    tmpdir = tempfile.mkdtemp(prefix="verif_c07_", dir=core.tlc.WORK)
    codecs = p_file.available_codecs(fa)
    cases = []
    tries = 0
    while len(cases) < n and tries < 5 * n:
        tries += 1
        g = gen.Gen(rnd, logical=False, max_depth=rnd.choice([1, 2]), big=False)
        ir = g.schema(top="record")
        schema = g.render(ir)
        try:
            pool = [g.datum(ir, hints=False) for _ in range(4)]
            fa.parse_schema(schema)
        except Exception:  # noqa: BLE001
            continue
        bads = [5, "str", None, {"no_such_field_only": object}, [1]]
        try:
            donors = make_donors(fa, schema, pool, [rnd.choice(codecs), rnd.choice(codecs)], rnd)
        except Exception:  # noqa: BLE001
            continue
        nblocks = [len(container.walk(d)["blocks"]) for d in donors]
        ops = []
        for _ in range(rnd.randint(3, maxops)):
            x = rnd.random()
            if x < 0.5:
                ops.append(("write", rnd.choice(pool)))
            elif x < 0.6:
                ops.append(("write", rnd.choice(bads)))
            elif x < 0.75:
                ops.append(("flush",))
            elif x < 0.9:
                d = rnd.randrange(len(donors))
                ops.append(("wblock", d, rnd.randrange(nblocks[d]), rnd.choice([0, 0, 1, 2])))
            else:
                ops.append(("reopen", dict(rnd.choice([{}, {"schema": None}, {"schema": OTHER_SCHEMA, "codec": rnd.choice(codecs)},
                                                        {"codec": rnd.choice(codecs), "meta": {"other": "meta"}, "sync": b"S" * 16}]),
                                           pos=rnd.choice([None, None, "magic", "half"]))))
        ops.append(("flush",))
        try:
            onfile = rnd.random() < 0.25
            fpath = os.path.join(tmpdir, "h%d.avro" % len(cases)) if onfile else None
            cases.append(run_history(fa, "r%d" % len(cases), schema, ops, rnd.choice(codecs), rnd.choice([1, 10, 60, 100000]), donors,
                                     validator=rnd.random() < 0.3, sync=rnd.choice([b"", bytes(rnd.getrandbits(8) for _ in range(16))]),
                                     meta=rnd.choice([None, {"k": "v"}, SHARED_META, SHARED_META]), tag="random-file" if onfile else "random", path=fpath))
            if fpath and os.path.exists(fpath):
                os.unlink(fpath)
        except core.tlc.MachineryError:
            raise
    import shutil
    shutil.rmtree(tmpdir, ignore_errors=True)
    return cases


def flush_visibility(ctx, fa):
    """Writer on a buffered real file: after Writer.flush() the file, read through a second handle while the writer is still open, holds
    everything submitted so far - also when the Writer itself had nothing pending (right after creation, after records that were
    dumped because the sync interval was reached, after a failed write)."""
    import tempfile
    import fastavro._write_py as W
    tmpdir = tempfile.mkdtemp(prefix="verif_c07f_", dir=core.tlc.WORK)
    cases = []
    recs = [{"a": i, "b": "r%d" % i} for i in range(4)]
    plans = [[], ["w"], ["w", "w"], ["bad"], ["w", "bad"], ["w", "w", "w"]]
    try:
        for codec in ("null", "deflate"):
            for interval in (1, 100000):
                for plan in plans:
                    path = os.path.join(tmpdir, "f%d.avro" % len(cases))
                    sub = []
                    with open(path, "w+b") as fo:
                        w = W.Writer(fo, SCHEMA_A, codec=codec, sync_interval=interval, sync_marker=bytes(range(16)))
                        for k, st in enumerate(plan):
                            if st == "w":
                                w.write(recs[k])
                                sub.append(recs[k])
                            else:
                                try:
                                    w.write({"a": 1, "b": 5})
                                except Exception:  # noqa: BLE001
                                    pass
                        w.flush()
                        with open(path, "rb") as g:          # the writing handle is still open and was not flushed by us
                            data = g.read()
                    os.unlink(path)
                    c = {"id": "fv%d" % len(cases), "op": "flushvis", "schema": proj.pj(SCHEMA_A), "records": [proj.pv(r) for r in sub],
                         "file": list(data), "plan": plan, "codec": codec, "interval": interval}
                    try:
                        d = container.describe(data)
                        c["hs"], c["inflate"] = d["hs"], d["inflate"]
                    except Exception:  # noqa: BLE001 - an empty / damaged file: TLC's parser decides
                        c["hs"], c["inflate"] = {"text": [], "tree": proj.pj(None)}, []
                    cases.append(c)
    finally:
        import shutil
        shutil.rmtree(tmpdir, ignore_errors=True)
    core.judge_cases(ctx, cases, "flushvis", ("C07.",), describe=lambda c: "plan=%s codec=%s interval=%s file_len=%d" % (
        c["plan"], c["codec"], c["interval"], len(c["file"])))


def sig(c, clause):
    ops = c.get("ops", [])
    return {"tag_family": c.get("tag", "")[:12]}


def nontrivial(c):
    ops = c.get("ops", [])
    return len(ops) >= 3 and len(set(ops)) >= 2 and "flush" in ops


def describe(c):
    return "tag=%s ops=%s" % (c.get("tag"), ",".join(c.get("ops", []))[:160])


WRITER_INVS = ["InvReadBack", "InvDurable", "InvFile", "InvFlushed", "InvCutSafe", "InvSyncSafe"]


def apalache_counting(ctx):
    """Unbounded argument for the counting abstraction of the writer (apalache/WriterCount.tla): IndInv holds initially, is preserved by
    every action, and implies 'after a flush everything submitted is on the stream'. Three Apalache obligations."""
    import shutil
    import subprocess
    if not shutil.which("apalache-mc"):
        ctx.assumptions.append("apalache-mc not found: the unbounded counting argument was skipped")
        return
    out = os.path.join(core.tlc.WORK, "apalache-%s" % ctx.prop)
    obligations = [("base", ["--init=Init", "--inv=IndInv", "--length=0"]), ("step", ["--init=IndInit", "--inv=IndInv", "--length=1"]),
                   ("implies", ["--init=IndInit", "--inv=ReadBackCount", "--length=0"])]
    done = 0
    for name, args in obligations:
        try:
            os.makedirs(os.path.join(out, "jtmp"), exist_ok=True)       # SANY's temporary directories stay out of /tmp
            p = subprocess.run(["apalache-mc", "check"] + args + ["--out-dir=" + out, "WriterCount.tla"], cwd=os.path.join(core.VERIF, "apalache"),
                               stdout=subprocess.PIPE, stderr=subprocess.STDOUT, text=True, timeout=600,
                               env=dict(os.environ, JAVA_IO_TMPDIR=os.path.join(out, "jtmp"), TMPDIR=os.path.join(out, "jtmp")))
        except subprocess.TimeoutExpired:
            ctx.machinery.append("apalache obligation %s timed out" % name)
            continue
        if "EXITCODE: OK" in p.stdout:
            done += 1
        else:
            ctx.machinery.append("apalache obligation %s of WriterCount failed:\n%s" % (name, p.stdout[-600:]))
    shutil.rmtree(out, ignore_errors=True)
    ctx.extra["apalache_inductive_invariant"] = {"module": "apalache/WriterCount.tla", "obligations": len(obligations), "discharged": done}
    ctx.checker_cmds.append("apalache-mc check WriterCount.tla (IndInv: base, step, implies ReadBackCount)")


def run_c07(ctx, fa):
    from . import mcheck
    # M: every history up to MaxOps of the abstract writer (any blocking policy) and of fastavro's policy, with the bytes on the stream
    mcheck.model_check(ctx, "MC_Writer", {"MaxOps": 3 if ctx.quick() else 6, "Policy": "any", "Interval": 3}, WRITER_INVS[:4], "any", spec="Spec")
    mcheck.model_check(ctx, "MC_Writer", {"MaxOps": 3 if ctx.quick() else 6, "Policy": "fastavro", "Interval": 3}, WRITER_INVS[:4], "impl", spec="Spec")
    apalache_counting(ctx)
    maxlen = 2 if ctx.quick() else 3
    cases = exhaustive(ctx, fa, maxlen)
    ctx.extra["exhaustive_histories"] = len(cases)
    cases += randomised(ctx, fa, 100 if ctx.quick() else 1500, 14 if ctx.quick() else 40)
    ctx.extra["random_histories"] = len(cases) - ctx.extra["exhaustive_histories"]
    ctx.rule = ("every history of length <= %d (+ final flush) over {write small/large/zero-byte, write failing early/late, flush, write_block from a null "
                "and a deflate donor, reopen-for-append with other schema/codec/metadata} for two schema families x codec x sync_interval, plus seeded "
                "random histories (all importable codecs, validator on/off, up to %d operations); the stream bytes after every call are validated by "
                "TLC against AvroWriter; non-trivial = >= 3 operations of >= 2 kinds including a flush") % (maxlen, 14 if ctx.quick() else 40)
    # group clause names: strip the @k suffix for tallying but keep it in the violation note
    res = core.judge_cases(ctx, cases, "hist", ("C07.",), nontrivial_fn=nontrivial, describe=describe, sig_fn=sig)
    flush_visibility(ctx, fa)
    for k in ("wblock", "reopen"):
        ctx.extra["histories_with_" + k] = sum(1 for c in cases if k in c["ops"])
    ctx.extra["histories_with_failed_write"] = sum(1 for c in cases if any(e["op"] == "write" and e["raised"] for e in c["events"]))
    for c in cases[:1] + cases[-2:]:
        ctx.sample({"tag": c["tag"], "ops": c["ops"], "events": [{k: (v if k != "stream" else len(v)) for k, v in e.items() if k not in ("rec", "readback")}
                                                                for e in c["events"]][:12]})
