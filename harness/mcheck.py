"""M direction: model-check mc/*.tla with TLC; G direction: collect the cases a model prints."""
import json
import os
import re
import shutil
import subprocess

from . import tlc


def _cfg(base, name, constants, invariants, spec=None, init="Init", next_="Next", extra=""):
    lines = []
    if spec:
        lines.append("SPECIFICATION " + spec)
    else:
        lines += ["INIT " + init, "NEXT " + next_]
    if constants:
        lines.append("CONSTANTS")
        for k, v in constants.items():
            lines.append("  %s = %s" % (k, v if (not isinstance(v, str) or v in ("TRUE", "FALSE")) else json.dumps(v)))
    for inv in invariants:
        lines.append("INVARIANT " + inv)
    lines.append("CHECK_DEADLOCK FALSE")
    if extra:
        lines.append(extra)
    p = os.path.join(base, name + ".cfg")
    with open(p, "w") as f:
        f.write("\n".join(lines) + "\n")
    return p


COV_RE = re.compile(r"<(\w+) line \d+, col \d+ to line \d+, col \d+ of module (\w+)>: (\d+):(\d+)")


def model_check(ctx, module, constants, invariants, label, spec=None, workers=None, timeout=3000, coverage=False):
    """Run TLC on mc/<module>.tla; a violated invariant of the SPEC is a machinery failure (the spec must satisfy its own properties)."""
    base = os.path.join(tlc.WORK, "M_%s_%s_%s" % (ctx.prop, module, label))
    shutil.rmtree(base, ignore_errors=True)
    os.makedirs(base)
    cfg = _cfg(base, module, constants, invariants, spec=spec)
    cmd = tlc.java_cmd(os.path.join(tlc.VERIF, "mc", module), cfg, os.path.join(base, "meta"), workers=workers or tlc.NCPU, xss="32m", xmx="8g",
                       extra=(["-coverage", "1"] if coverage else []))
    try:
        p = subprocess.run(cmd, cwd=base, stdout=subprocess.PIPE, stderr=subprocess.STDOUT, text=True, timeout=timeout)
    except subprocess.TimeoutExpired:
        raise tlc.MachineryError("TLC timed out on model %s (%s)" % (module, label))
    out = p.stdout
    shutil.rmtree(os.path.join(base, "meta"), ignore_errors=True)
    shutil.rmtree(os.path.join(base, "jtmp"), ignore_errors=True)
    with open(os.path.join(base, "tlc.log"), "w") as f:
        f.write(out)
    gen, dist = tlc.parse_stats(out)
    ctx.add_model(gen, dist)
    ctx.checker_cmds.append("tlc mc/%s.tla %s invariants=%s -> %d distinct states" % (module, constants, ",".join(invariants), dist))
    ctx.extra.setdefault("models", []).append({"module": module, "label": label, "constants": constants, "invariants": invariants,
                                               "states": dist, "transitions": gen})
    if "Model checking completed. No error has been found." not in out:
        tail = "\n".join(l for l in out.splitlines() if l.strip() and not l.startswith(("Parsing", "Semantic", "Linting")))[-1500:]
        ctx.machinery.append("model %s (%s): TLC did not report success:\n%s" % (module, label, tail))
        return False, out
    if dist < 2:
        ctx.machinery.append("model %s (%s) explored %d states: vacuous" % (module, label, dist))
    return True, out


def emit(ctx, module, constants, label, emit_invariant="Emit"):
    """Run the model with one worker and collect the JSON cases printed by its Emit invariant (G direction)."""
    ok, out = model_check(ctx, module, constants, [emit_invariant], label, workers=1)
    cases = []
    for tag, strs in tlc.iter_tuples(out):
        if tag == "G" and strs:
            cases.append(json.loads(tlc._unescape(strs[0])))
    return cases


# ---- spec-internal parsed trees -> raw schemas (mechanical) ----------------------------------------------------
def uncps(l):
    return "".join(chr(c) for c in l)


def tree_to_raw(t):
    k = t["k"]
    if k in ("null", "boolean", "int", "long", "float", "double", "bytes", "string"):
        return k
    if k == "ref":
        return uncps(t["name"])
    if k == "array":
        return {"type": "array", "items": tree_to_raw(t["items"])}
    if k == "map":
        return {"type": "map", "values": tree_to_raw(t["values"])}
    if k == "union":
        return [tree_to_raw(b) for b in t["br"]]
    if k == "enum":
        return {"type": "enum", "name": uncps(t["name"]), "symbols": [uncps(s) for s in t["syms"]]}
    if k == "fixed":
        return {"type": "fixed", "name": uncps(t["name"]), "size": t["size"]}
    if k == "record":
        return {"type": "record", "name": uncps(t["name"]), "fields": [{"name": uncps(f["name"]), "type": tree_to_raw(f["type"])} for f in t["fields"]]}
    raise ValueError(k)
