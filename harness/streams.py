"""Wrapper streams that expose a minimal interface and log every attribute access (C04)."""
import io


class SeqIn:
    """Read-only sequential input: only .read is available."""
    ALLOWED = {"read"}

    def __init__(self, data):
        object.__setattr__(self, "_b", io.BytesIO(data))
        object.__setattr__(self, "log", [])

    def __getattribute__(self, name):
        if name in ("log", "_b", "__class__", "__dict__"):
            return object.__getattribute__(self, name)
        object.__getattribute__(self, "log").append(name)
        if name == "read":
            return object.__getattribute__(self, "_b").read
        raise AttributeError(name)


class PipeOut:
    """Write-only, non-seekable, *buffering* output (like a socket file): only write, flush and seekable() -> False;
    what was written becomes visible to the consumer (getdata) only when flush() is called."""
    ALLOWED = {"write", "flush", "seekable"}

    def __init__(self):
        object.__setattr__(self, "_chunks", [])
        object.__setattr__(self, "_visible", [])
        object.__setattr__(self, "log", [])

    def __getattribute__(self, name):
        if name in ("log", "_chunks", "_visible", "__class__", "__dict__", "getdata"):
            return object.__getattribute__(self, name)
        object.__getattribute__(self, "log").append(name)
        if name == "write":
            chunks = object.__getattribute__(self, "_chunks")

            def write(b):
                chunks.append(bytes(b))
                return len(b)
            return write
        if name == "flush":
            chunks = object.__getattribute__(self, "_chunks")
            visible = object.__getattribute__(self, "_visible")

            def flush():
                visible.extend(chunks)
                del chunks[:]
            return flush
        if name == "seekable":
            return lambda: False
        raise AttributeError(name)

    def getdata(self):
        return b"".join(object.__getattribute__(self, "_visible"))
