"""C08: reading with a reader schema derived from the writer schema by evolution steps (V direction)."""
import copy
import io

from . import core, gen, proj

PROMOTE = {"int": ["long", "float", "double"], "long": ["float", "double"], "float": ["double"], "string": ["bytes"], "bytes": ["string"]}
DEMOTE = {"long": ["int"], "double": ["float", "long", "int"], "float": ["long", "int"], "string": ["int"], "int": ["boolean", "string"], "boolean": ["int"]}


def positions(t, out=None, holder=None, key=None):
    """All type positions of an IR tree as (holder, key, node)."""
    if out is None:
        out = []
    out.append((holder, key, t))
    k = t["k"]
    if k == "record":
        for f in t["fields"]:
            positions(f["type"], out, f, "type")
    elif k == "array":
        positions(t["items"], out, t, "items")
    elif k == "map":
        positions(t["values"], out, t, "values")
    elif k == "union":
        for i, b in enumerate(t["br"]):
            positions(b, out, t["br"], i)
    return out


def evolve(rnd, g, ir, compatible_only):
    """One evolution step on a deep copy (g.defs is the reader's table). Returns (ir, step name) or (ir, None)."""
    pos = positions(ir)
    records = [n for _, _, n in pos if n["k"] == "record"]
    enums = [n for _, _, n in pos if n["k"] == "enum"]
    fixeds = [n for _, _, n in pos if n["k"] == "fixed"]
    prims = [(h, k, n) for h, k, n in pos if n["k"] == "prim" and h is not None]
    unions = [n for _, _, n in pos if n["k"] == "union"]
    named = [n for _, _, n in pos if n["k"] in ("record", "enum", "fixed")]
    steps = ["reorder", "add_default", "drop_field", "rename_alias", "promote", "widen_union", "wrap_union", "enum_add", "enum_remove_default",
             "rename_type_alias", "change_ns", "field_alias_swap", "union_reorder", "hoist_def", "hoist_def", "rename_evolve_referenced",
             "rename_evolve_referenced", "drop_named_field", "drop_named_field", "unwrap_union", "unwrap_union", "unwrap_union", "unwrap_union"]
    if not compatible_only:
        steps += ["add_nodefault", "demote", "enum_remove", "fixed_size", "rename_field", "narrow_union", "rename_type", "kind_change",
                  "unwrap_union", "unwrap_union"] * 1
    rnd.shuffle(steps)
    for st in steps:
        if st == "reorder" and records:
            r = rnd.choice(records)
            if len(r["fields"]) >= 2:
                rnd.shuffle(r["fields"])
                if not normalize_defs(ir):
                    return ir, None
                return ir, st
        elif st in ("add_default", "add_nodefault") and records:
            r = rnd.choice(records)
            name = "new_%d" % rnd.randint(0, 999)
            ft = {"k": "prim", "name": rnd.choice(["int", "long", "string", "boolean", "null", "double"])}
            f = {"name": name, "type": ft, "hasdef": st == "add_default", "default": None, "aliases": []}
            if st == "add_default":
                f["default"] = {"int": 7, "long": 2 ** 40, "string": "dflt é", "boolean": True, "null": None, "double": 2.5}[ft["name"]]
            r["fields"].insert(rnd.randint(0, len(r["fields"])), f)
            return ir, st
        elif st in ("drop_field", "drop_named_field") and records:
            r = rnd.choice(records)
            if st == "drop_named_field":
                # prefer a record that has a field whose type involves a named type (the skip functions of records, enums, fixed)
                rich = [x for x in records if any(any(n["k"] in ("record", "enum", "fixed", "ref") for _, _, n in positions(f["type"]))
                                                  for f in x["fields"])]
                if not rich:
                    continue
                r = rnd.choice(rich)
            # a field that defines named types can go when nothing outside it refers to them
            def droppable(f):
                mine = {n["full"] for _, _, n in positions(f["type"]) if n["k"] in ("record", "enum", "fixed")}
                if not mine:
                    return True
                inside = sum(1 for _, _, n in positions(f["type"]) if n["k"] == "ref" and n["full"] in mine)
                total = sum(1 for _, _, n in pos if n["k"] == "ref" and n["full"] in mine)
                return inside == total
            cands = [i for i, f in enumerate(r["fields"]) if droppable(f)]
            if st == "drop_named_field":
                cands = [i for i in cands if any(n["k"] in ("record", "enum", "fixed", "ref") for _, _, n in positions(r["fields"][i]["type"]))]
            if cands:
                i = rnd.choice(cands)
                errs = [j for j in cands if any(n.get("error") or (n["k"] == "ref" and g.defs.get(n["full"], {}).get("error"))
                                                for _, _, n in positions(r["fields"][j]["type"]))]
                if errs and rnd.random() < 0.7:
                    i = rnd.choice(errs)        # "error" records have a dispatch entry of their own in the skip table
                for _, _, n in positions(r["fields"][i]["type"]):
                    if n["k"] in ("record", "enum", "fixed"):
                        g.defs.pop(n["full"], None)
                del r["fields"][i]
                return ir, st
        elif st in ("rename_alias", "rename_field") and records:
            r = rnd.choice(records)
            if r["fields"]:
                f = rnd.choice(r["fields"])
                old = f["name"]
                if any(old in x.get("aliases", []) for x in r["fields"] if x is not f):
                    continue          # a sibling already claims this name as an alias: two fields with one alias would be ambiguous
                f["name"] = old + "_renamed"
                if st == "rename_alias":
                    f["aliases"] = list(f.get("aliases", [])) + [old]
                elif f["hasdef"]:
                    continue
                return ir, st
        elif st in ("promote", "demote") and prims:
            h, k, n = rnd.choice(prims)
            annotated = [x for x in prims if x[2].get("ult")]
            if annotated and rnd.random() < 0.6:
                h, k, n = rnd.choice(annotated)       # an annotation nobody knows is ignored: the type underneath promotes as usual
            table = PROMOTE if st == "promote" else DEMOTE
            if n["name"] in table and "lt" not in n:
                if isinstance(h, list) and any(b["k"] == "prim" and b["name"] in table[n["name"]] for b in h):
                    continue
                h[k] = {"k": "prim", "name": rnd.choice(table[n["name"]])}
                if isinstance(h, dict) and "hasdef" in h:
                    h["hasdef"] = False
                return ir, st
        elif st == "widen_union" and unions:
            u = rnd.choice(unions)
            have = {b["name"] for b in u["br"] if b["k"] == "prim"}
            new = [p for p in gen.PRIMS if p not in have]
            if new:
                u["br"].insert(rnd.randint(0, len(u["br"])), {"k": "prim", "name": rnd.choice(new)})
                return ir, st
        elif st == "union_reorder" and unions:
            u = rnd.choice(unions)
            if len(u["br"]) >= 2 and not any(defines_named(b) for b in u["br"]):
                rnd.shuffle(u["br"])
                return ir, st
        elif st == "unwrap_union":
            # the reader keeps one branch of a union (possibly promoted): data of that branch resolve, data of the others do not
            cands = [(h, k, n) for h, k, n in pos if n["k"] == "union" and h is not None and not isinstance(h, list) and n["br"]
                     and not any(defines_named(b) for b in n["br"])]
            if not cands:
                continue
            h, k, n = rnd.choice(cands)
            inside = [x for x in cands if x[1] in ("items", "values")]
            if inside and rnd.random() < 0.7:
                h, k, n = rnd.choice(inside)        # the union is the item / value type of a collection
            b = copy.deepcopy(rnd.choice(n["br"]))
            if b["k"] == "prim" and b["name"] in PROMOTE and "lt" not in b and rnd.random() < 0.5:
                b = {"k": "prim", "name": rnd.choice(PROMOTE[b["name"]])}
            h[k] = b
            if isinstance(h, dict) and "hasdef" in h:
                h["hasdef"] = False
            return ir, st
        elif st == "narrow_union" and unions:
            u = rnd.choice(unions)
            cands = [i for i, b in enumerate(u["br"]) if not defines_named(b)]
            if cands and len(u["br"]) >= 2:
                del u["br"][rnd.choice(cands)]
                return ir, st
        elif st == "wrap_union":
            cands = [(h, k, n) for h, k, n in pos if h is not None and n["k"] != "union" and not isinstance(h, list)
                     and not (h.get("k") in ("array", "map") and False)]
            cands = [(h, k, n) for h, k, n in cands if not (isinstance(h, dict) and h.get("k") == "union")]
            if cands:
                h, k, n = rnd.choice(cands)
                others = [{"k": "prim", "name": p} for p in rnd.sample(["null", "boolean"], rnd.choice([1, 2]))
                          if not (n["k"] == "prim" and n["name"] == p)]
                br = others + [n]
                rnd.shuffle(br)
                if any(defines_named(b) for b in br) and br[-1] is not n:
                    br.remove(n)
                    br.append(n)
                h[k] = {"k": "union", "br": br}
                if isinstance(h, dict) and "hasdef" in h:
                    h["hasdef"] = False
                return ir, st
        elif st == "enum_add" and enums:
            e = rnd.choice(enums)
            e["syms"] = e["syms"] + ["ADDED_%d" % rnd.randint(0, 99)]
            return ir, st
        elif st in ("enum_remove_default", "enum_remove") and enums:
            e = rnd.choice(enums)
            if len(e["syms"]) >= 2:
                gone = rnd.choice(e["syms"])
                e["syms"] = [s for s in e["syms"] if s != gone]
                e["hasdef"] = st == "enum_remove_default"
                e["default"] = e["syms"][0]
                return ir, st
        elif st == "fixed_size" and fixeds:
            f = rnd.choice(fixeds)
            f["size"] += 1
            return ir, st
        elif st in ("rename_type_alias", "rename_type", "change_ns") and named:
            n = rnd.choice(named)
            old = n["full"]
            simple = old.rsplit(".", 1)[-1]
            if st == "change_ns":
                newns = rnd.choice(["other.ns", "q"])
                new = newns + "." + simple
                n["ns"] = newns
            else:
                new = (n["ns"] + "." if n["ns"] else "") + simple + "Renamed"
                if st == "rename_type_alias":
                    n["aliases"] = list(n.get("aliases", [])) + [rnd.choice([old, simple])]
            rename_everywhere(ir, g, old, new)
            return ir, st
        elif st == "kind_change" and prims:
            h, k, n = rnd.choice(prims)
            if isinstance(h, list):
                continue          # inside a union the new array could be a second array branch: not a valid union
            h[k] = {"k": "array", "items": {"k": "prim", "name": n["name"]}}
            if isinstance(h, dict) and "hasdef" in h:
                h["hasdef"] = False
            return ir, st
        elif st == "hoist_def" and ir["k"] == "record":
            # the reader defines a named type in a new optional field placed first and refers to it by name where the writer defines it
            # inline; the definition evolves on the way (so resolving against the writer's own definition gives a different value)
            cands = [(h, k, n) for h, k, n in pos if n["k"] in ("enum", "record") and h is not None and n is not ir]
            if not cands:
                continue
            h, k, n = rnd.choice(cands)
            if n["k"] == "enum":
                if len(n["syms"]) >= 2 and rnd.random() < 0.7:
                    gone = rnd.choice(n["syms"])
                    n["syms"] = [s for s in n["syms"] if s != gone]
                    n["hasdef"] = True
                    n["default"] = n["syms"][-1]
                else:
                    n["syms"] = n["syms"] + ["HOISTED"]
            else:
                n["fields"].insert(rnd.randint(0, len(n["fields"])),
                                   {"name": "hoisted_%d" % rnd.randint(0, 99), "type": {"k": "prim", "name": "long"}, "hasdef": True,
                                    "default": rnd.choice([0, -5, 2 ** 33]), "aliases": []})
            h[k] = {"k": "ref", "full": n["full"]}
            f = {"name": "hoist_%d" % rnd.randint(0, 999), "type": {"k": "union", "br": [{"k": "prim", "name": "null"}, n]}, "hasdef": True,
                 "default": None, "aliases": []}
            ir["fields"].insert(0, f)
            if not normalize_defs(ir):
                return ir, None
            return ir, st
        elif st == "rename_evolve_referenced":
            # a named type that is also used by reference is renamed (alias) or moved to another namespace, and its definition evolves:
            # every occurrence, inline or by name, must be resolved against the reader's new definition
            refd = {n["full"] for _, _, n in pos if n["k"] == "ref"}
            cands = [n for n in named if n["full"] in refd and n["k"] in ("enum", "record") and n is not ir]
            if not cands:
                continue
            n = rnd.choice(cands)
            old = n["full"]
            simple = old.rsplit(".", 1)[-1]
            if rnd.random() < 0.5:
                newns = rnd.choice(["other.ns", "q"])
                new = newns + "." + simple
                n["ns"] = newns
            else:
                new = (n["ns"] + "." if n["ns"] else "") + simple + "Renamed"
                n["aliases"] = list(n.get("aliases", [])) + [rnd.choice([old, simple])]
            rename_everywhere(ir, g, old, new)
            if n["k"] == "enum":
                if len(n["syms"]) >= 2 and rnd.random() < 0.7:
                    gone = rnd.choice(n["syms"])
                    n["syms"] = [s for s in n["syms"] if s != gone]
                    n["hasdef"] = True
                    n["default"] = n["syms"][-1]
                else:
                    n["syms"] = n["syms"] + ["EVOLVED"]
            else:
                n["fields"].insert(rnd.randint(0, len(n["fields"])),
                                   {"name": "evolved_%d" % rnd.randint(0, 99), "type": {"k": "prim", "name": "string"}, "hasdef": True,
                                    "default": rnd.choice(["", "dflt é"]), "aliases": []})
            return ir, st
        elif st == "alias_collision" and records:
            # a reader field gains an alias equal to the NAME of a sibling field: fields are matched by name first, so nothing changes
            cands = [x for x in records if len(x["fields"]) >= 2]
            if not cands:
                continue
            r = rnd.choice(cands)
            f1, f2 = rnd.sample(r["fields"], 2)
            if any(f2["name"] in x.get("aliases", []) for x in r["fields"]):
                continue
            f1["aliases"] = list(f1.get("aliases", [])) + [f2["name"]]
            return ir, st
        elif st == "field_alias_swap":
            continue
    return ir, None


def alias_collision_final(rnd, ir):
    """After all other steps: a reader field gains an alias equal to the NAME of a sibling field that is still there. Fields are matched
    by name first, so nothing changes. Returns True when applied."""
    records = [n for _, _, n in positions(ir) if n["k"] == "record" and len(n["fields"]) >= 2]
    if not records:
        return False
    r = rnd.choice(records)
    f1, f2 = rnd.sample(r["fields"], 2)
    if any(f2["name"] in x.get("aliases", []) for x in r["fields"]):
        return False
    f1["aliases"] = list(f1.get("aliases", [])) + [f2["name"]]
    return True


def unused_alias_final(rnd, ir):
    """A reader field (and its record) lists a name from an older generation that the writer does not use: nothing changes."""
    records = [n for _, _, n in positions(ir) if n["k"] == "record" and n["fields"]]
    if not records:
        return False
    r = rnd.choice(records)
    f = rnd.choice(r["fields"])
    f["aliases"] = list(f.get("aliases", [])) + ["zz_older_name_%d" % rnd.randint(0, 9)]
    if rnd.random() < 0.3:
        r["aliases"] = list(r.get("aliases", [])) + ["ZzOlderType"]
    return True


def normalize_defs(ir):
    """Make the first occurrence (document order) of every named type its definition and all later ones references:
    after fields were reordered a reference may precede the definition - swap them (inline vs by reference differs between the sides)."""
    for _ in range(20):
        seen = set()
        swap = None
        stack_open = []

        def walk(t, holder, key, open_names):
            nonlocal swap
            if swap:
                return
            k = t["k"]
            if k == "ref":
                if t["full"] not in seen and t["full"] not in open_names:
                    swap = (holder, key, t["full"])
                return
            if k in ("record", "enum", "fixed"):
                seen.add(t["full"])
            if k == "record":
                for f in t["fields"]:
                    walk(f["type"], f, "type", open_names | {t["full"]})
            elif k == "array":
                walk(t["items"], t, "items", open_names)
            elif k == "map":
                walk(t["values"], t, "values", open_names)
            elif k == "union":
                for i, b in enumerate(t["br"]):
                    walk(b, t["br"], i, open_names)
        walk(ir, None, None, frozenset())
        if not swap:
            return True
        holder, key, full = swap
        target = [(h, k_, n) for h, k_, n in positions(ir) if n["k"] in ("record", "enum", "fixed") and n["full"] == full and h is not None]
        if not target or holder is None:
            return False
        h2, k2, node = target[0]
        # the definition must not contain the place the reference sits in
        if any(n is holder or (isinstance(holder, list) and n.get("br") is holder) for _, _, n in positions(node)):
            return False
        holder[key] = node
        h2[k2] = {"k": "ref", "full": full}
    return False


def defines_named(t):
    return any(n["k"] in ("record", "enum", "fixed") for _, _, n in positions(t))


def rename_everywhere(ir, g, old, new):
    d = g.defs.pop(old)
    d["full"] = new
    g.defs[new] = d
    for _, _, n in positions(ir):
        if n["k"] == "ref" and n["full"] == old:
            n["full"] = new


def fix_ns_for_refs(g):
    pass


def resolve_case(fa, cid, wraw, rraw, datum, equal):
    c = {"id": cid, "op": "resolve", "w": proj.pj(wraw), "r": proj.pj(rraw), "datum": proj.pv(datum), "equal": equal}
    try:
        fa.parse_schema(wraw)
    except Exception as e:  # noqa: BLE001
        c["perr"] = proj.pexc(e)["exc"]
        return c
    fo = io.BytesIO()
    try:
        fa.schemaless_writer(fo, wraw, datum)
    except Exception as e:  # noqa: BLE001
        return None
    data = fo.getvalue()
    c["bytes"] = list(data)
    try:
        fi = io.BytesIO(data)
        v = fa.schemaless_reader(fi, wraw, rraw)
        c["sl"] = {"ok": True, "v": proj.pv(v), "pos": fi.tell()}
    except Exception as e:  # noqa: BLE001
        c["sl"] = {"ok": False, "exc": proj.pexc(e)["exc"], "msg": proj.cps(str(e)[:150])}
    for key, kw in (("named", {"return_named_type": True}), ("recname", {"return_record_name": True})):
        try:
            c[key] = {"ok": True, "v": proj.pv(fa.schemaless_reader(io.BytesIO(data), wraw, rraw, **kw))}
        except Exception as e:  # noqa: BLE001
            c[key] = {"ok": False, "exc": proj.pexc(e)["exc"], "msg": proj.cps(str(e)[:150])}
    try:
        ff = io.BytesIO()
        fa.writer(ff, wraw, [datum])
        recs = list(fa.reader(io.BytesIO(ff.getvalue()), reader_schema=rraw))
        c["file"] = {"ok": True, "recs": [proj.pv(r) for r in recs]}

    except Exception as e:  # noqa: BLE001
        c["file"] = {"ok": False, "exc": proj.pexc(e)["exc"], "msg": proj.cps(str(e)[:150])}
    try:
        brecs = [r for blk in fa.block_reader(io.BytesIO(ff.getvalue()), reader_schema=rraw) for r in blk]
        c["blocks"] = {"ok": True, "recs": [proj.pv(r) for r in brecs]}
    except Exception as e:  # noqa: BLE001
        c["blocks"] = {"ok": False, "exc": proj.pexc(e)["exc"]}
    return c


def run_c08(ctx, fa):
    from . import mcheck
    # M: identity, reordering, skipping, missing default, promotion and same-type-before-promotion on the bounded universe of MC_Binary
    mcheck.model_check(ctx, "MC_Binary", {"Depth": 1 if ctx.quick() else 2}, ["InvResolveIdentity", "InvResolveReorder", "InvResolveSkip", "InvResolveMissing",
                                                        "InvResolvePromote", "InvResolveUnion"], "resolve")
    rnd = ctx.sub_rnd("c08")
    n = 1500 if ctx.quick() else 14000
    cases = []
    steps_count = {}
    tries = 0
    while len(cases) < n and tries < 8 * n:
        tries += 1
        g = gen.Gen(rnd, logical=False, max_depth=rnd.choice([1, 2, 2, 3]), big=False, aliases=False)
        ir = g.schema(top=rnd.choice(["record"] * 5 + ["union", "array", "map", "enum", "fixed", "prim"]))
        wraw = g.render(ir)
        try:
            datum = g.datum(ir, hints=False)
        except (gen.NoDatum, RecursionError):
            continue
        gr = gen.Gen(rnd)
        rir = copy.deepcopy(ir)
        # the reader's definition table must point into the copied tree
        gr.defs = {n_["full"]: n_ for _, _, n_ in positions(rir) if n_["k"] in ("record", "enum", "fixed")}
        applied = []
        nsteps = rnd.choice([0, 1, 1, 1, 2, 2, 3])
        only_compat = rnd.random() < 0.6
        for _ in range(nsteps):
            rir, st = evolve(rnd, gr, rir, only_compat)
            if st:
                applied.append(st)
        if rnd.random() < 0.1 and alias_collision_final(rnd, rir):
            applied.append("alias_collision")
        if rnd.random() < 0.15 and unused_alias_final(rnd, rir):
            applied.append("unused_alias")
        try:
            rraw = gr.render(rir)
        except KeyError:
            continue
        c = resolve_case(fa, "s%d" % len(cases), wraw, rraw, datum, equal=not applied)
        if c is None:
            continue
        c["steps"] = applied
        c["nodes"] = gen.count_nodes(ir)
        for s_ in applied:
            steps_count[s_] = steps_count.get(s_, 0) + 1
        cases.append(c)
    ctx.extra["evolution_steps"] = steps_count
    ctx.rule = ("writer schemas from the seeded generator; reader derived by 0-3 evolution steps at random positions: compatible {reorder fields, add "
                "defaulted field, drop field, rename field/type with alias, promote, widen / wrap in / reorder union, add enum symbol, remove symbol "
                "with default, change namespace} and incompatible {add field without default, demote, remove symbol without default, change fixed "
                "size, rename without alias, narrow union, change kind}; schemaless_reader(fo, w, r) and reader(fo, reader_schema=r); 0 steps = reader "
                "equal to the writer as a separate object; non-trivial = reader differs from writer")
    if not ctx.quick():
        from . import p_suite
        p_suite.run(ctx, {"t_sl_read"}, ("C08.",))
    core.judge_cases(ctx, cases, "resolve", ("C08.",), nontrivial_fn=lambda c: bool(c["steps"]), sig_fn=sig_c08,
                     describe=lambda c: "steps=%s w=%s r=%s" % (c["steps"], repr(proj.unpj(c["w"]))[:120], repr(proj.unpj(c["r"]))[:120]))
    for c in cases[:3]:
        ctx.sample({"writer": proj.unpj(c["w"]), "reader": proj.unpj(c["r"]), "steps": c["steps"]})


def sig_c08(c, clause):
    return {"steps": ",".join(sorted(set(c["steps"])))}
