"""C04 / C05: container files written by fastavro, judged by the spec's independent parser (V direction)."""
import io
import os
import tempfile

from . import container, core, gen, proj, streams


def available_codecs(fa):
    import fastavro._write_py as w
    out = []
    for name, fn in w.BLOCK_WRITERS.items():
        if getattr(fn, "__name__", "") == "missing":
            continue
        if name in ("null", "deflate", "bzip2", "xz"):
            out.append(name)
    return out


def pmeta(d):
    return {"ks": [proj.cps(k) for k in d], "vs": [proj.cps(v) for v in d.values()]}


def file_case(fa, cid, raw, records, codec="null", interval=16000, level=None, meta=None, sync=b"", parsed_form=False,
              kind_out="bytesio", kind_in="bytesio", tmpdir=None):
    case = {"id": cid, "op": "file_rt", "schema": proj.pj(raw), "records": [proj.pv(r) for r in records], "codec": proj.cps(codec),
            "interval": interval, "level": -1 if level is None else level, "meta": pmeta(meta or {}), "sync": list(sync),
            "kind_out": kind_out, "kind_in": kind_in, "form": "parsed" if parsed_form else "raw", "calls_out": [], "calls_in": []}
    try:
        schema = fa.parse_schema(raw) if parsed_form else raw
        fa.parse_schema(raw)
    except Exception as e:  # noqa: BLE001
        case["perr"] = proj.pexc(e)["exc"]
        return case
    kw = dict(codec=codec, sync_interval=interval, metadata=dict(meta) if meta is not None else None, sync_marker=sync)
    if level is not None:
        kw["codec_compression_level"] = level
    path = None
    try:
        if kind_out == "pipe":
            fo = streams.PipeOut()
            fa.writer(fo, schema, records, **kw)
            data = fo.getdata()
            case["calls_out"] = sorted(set(fo.log))
        elif kind_out == "file":
            path = os.path.join(tmpdir, cid + ".avro")
            with open(path, "wb") as fo:
                fa.writer(fo, schema, records, **kw)
            with open(path, "rb") as f:
                data = f.read()
        else:
            fo = io.BytesIO()
            fa.writer(fo, schema, records, **kw)
            data = fo.getvalue()
        case["wrote"] = {"ok": True}
    except Exception as e:  # noqa: BLE001
        case["wrote"] = {"ok": False, "exc": proj.pexc(e)["exc"], "msg": proj.cps(str(e)[:200])}
        case.update(file=[], hs={"text": [], "tree": proj.pj(None)}, inflate=[], walk=[], hend=0, read={"ok": False}, br={"ok": False})
        return case
    case["file"] = list(data)
    try:
        case.update(container.describe(data))
    except Exception as e:  # noqa: BLE001 - framing the walker cannot follow: TLC's parser decides
        case.update(hs={"text": [], "tree": proj.pj(None)}, inflate=[], walk=[], hend=0, walker_error=proj.cps(repr(e)[:100]))
    # read back with nothing but the file
    try:
        if kind_in == "seq":
            fi = streams.SeqIn(data)
        elif kind_in == "file" and path:
            fi = open(path, "rb")
        else:
            fi = io.BytesIO(data)
        try:
            rd = fa.reader(fi)
            recs = list(rd)
            case["read"] = {"ok": True, "recs": [proj.pv(r) for r in recs], "wschema": proj.pj(proj.strip_parsed(rd.writer_schema)),
                            "codec": proj.cps(rd.codec), "meta": pmeta(rd.metadata)}
            if kind_in == "seq":
                case["calls_in"] = sorted(set(fi.log))
        finally:
            if kind_in == "file" and path:
                fi.close()
    except Exception as e:  # noqa: BLE001
        case["read"] = {"ok": False, "exc": proj.pexc(e)["exc"], "msg": proj.cps(str(e)[:200])}
        if kind_in == "seq":
            case["calls_in"] = sorted(set(fi.log))
    try:
        blocks = []
        for b in fa.block_reader(io.BytesIO(data)):
            blocks.append({"off": b.offset, "size": b.size, "n": b.num_records, "recs": [proj.pv(r) for r in b]})
        case["br"] = {"ok": True, "blocks": blocks}
    except Exception as e:  # noqa: BLE001
        case["br"] = {"ok": False, "exc": proj.pexc(e)["exc"]}
    if path:
        os.unlink(path)
    return case


def make_cases(ctx, fa, n, label="f"):
    rnd = ctx.sub_rnd(label)
    codecs = available_codecs(fa)
    ctx.extra["codecs"] = codecs
    cases = []
    tmp = tempfile.mkdtemp(prefix="verif_c04_", dir=os.path.join(core.VERIF, ".work"))
    tries = 0
    while len(cases) < n and tries < n * 5:
        tries += 1
        g = gen.Gen(rnd, logical=False, max_depth=rnd.choice([1, 2, 2]), big=False)
        top = rnd.choice(["record"] * 6 + ["union", "array", "map", "enum", "fixed", "prim", "prim"])
        ir = g.schema(top=top)
        raw = g.render(ir)
        nrec = rnd.choice([0, 1, 1, 2, 3, 5, 8, 20, 70])
        try:
            records = [g.datum(ir) for _ in range(nrec)]
        except (gen.NoDatum, RecursionError):
            continue
        codec = rnd.choice(codecs)
        total = 0
        try:
            bio = io.BytesIO()
            for r in records:
                fa.schemaless_writer(bio, raw, r)
            total = bio.tell()
        except Exception:  # noqa: BLE001
            pass
        first = 0
        interval = rnd.choice([1, 2, 7, 16, 64, 100, 1000, 16000, max(1, total), max(1, total - 1), total + 1, max(1, total // 2)])
        level = rnd.choice([None, None, 1, 6, 9]) if codec in ("deflate",) else None
        meta = rnd.choice([None, {}, {"k": "v"}, {"user.key": "värde €", "a": ""}, {"x" * 70: "y" * 300}])
        sync = rnd.choice([b"", bytes(rnd.getrandbits(8) for _ in range(16)), bytes(range(16)), b"\x00" * 16])
        kind_out = rnd.choice(["bytesio", "bytesio", "pipe", "file"])
        kind_in = rnd.choice(["bytesio", "seq", "seq", "file"]) if kind_out == "file" else rnd.choice(["bytesio", "seq"])
        c = file_case(fa, "%s%d" % (label, len(cases)), raw, records, codec=codec, interval=interval, level=level, meta=meta, sync=sync,
                      parsed_form=rnd.random() < 0.4, kind_out=kind_out, kind_in=kind_in, tmpdir=tmp)
        c["nrec"] = nrec
        cases.append(c)
    try:
        os.rmdir(tmp)
    except OSError:
        pass
    return cases


def nontrivial(c):
    return len(c.get("walk", [])) >= 1 and c.get("nrec", 0) >= 1


def describe(c):
    return "codec=%s interval=%s out=%s in=%s nrec=%s schema=%s" % (proj.uncps(c["codec"]), c["interval"], c["kind_out"], c["kind_in"],
                                                                     c.get("nrec"), repr(proj.unpj(c["schema"]))[:140])


def run(ctx, fa, own):
    n = 320 if ctx.quick() else 5000
    cases = make_cases(ctx, fa, n)
    ctx.rule = ("seeded product: schema of every top-level kind x record lists (0..70 records, zero-byte records) x codec in the importable "
                "{null, deflate, bzip2, xz} x sync_interval {1 .. total+1} x compression level x metadata x sync marker x raw/parsed schema x "
                "stream kind (BytesIO, real file, read-only sequential input, write-only non-seekable output); non-trivial = >= 1 block and "
                ">= 1 record; distinct by SHA-256 of the case")
    core.judge_cases(ctx, cases, "files", own, nontrivial_fn=nontrivial, describe=describe)
    ctx.extra["files_with_2plus_blocks"] = sum(1 for c in cases if len(c.get("walk", [])) >= 2)
    ctx.extra["files_by_codec"] = {k: sum(1 for c in cases if proj.uncps(c["codec"]) == k) for k in ctx.extra["codecs"]}
    ctx.extra["pipe_outputs"] = sum(1 for c in cases if c["kind_out"] == "pipe")
    ctx.extra["seq_inputs"] = sum(1 for c in cases if c["kind_in"] == "seq")
    for c in cases[:3]:
        ctx.sample({"schema": proj.unpj(c["schema"]), "codec": proj.uncps(c["codec"]), "interval": c["interval"], "records": len(c["records"]),
                    "blocks": c.get("walk"), "file_len": len(c.get("file", []))})


def run_c04(ctx, fa):
    run(ctx, fa, ("C04.",))


def run_c05(ctx, fa):
    run(ctx, fa, ("C05.",))
