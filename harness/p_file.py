"""C04 / C05: container files written by fastavro, judged by the spec's independent parser (V direction)."""
import io
import os
import tempfile

from . import container, core, gen, proj, streams


def available_codecs(fa):
    import fastavro._write_py as w
    out = []
    for name, fn in w.BLOCK_WRITERS.items():
        if getattr(fn, "__name__", "") == "missing":
            continue
        if name in ("null", "deflate", "bzip2", "xz"):
            out.append(name)
    return out


def pmeta(d):
    return {"ks": [proj.cps(k) for k in d], "vs": [proj.cps(v) for v in d.values()]}


def file_case(fa, cid, raw, records, codec="null", interval=16000, level=None, meta=None, sync=b"", parsed_form=False,
              kind_out="bytesio", kind_in="bytesio", tmpdir=None, append_at=None, codec2="null", session=None):
    case = {"id": cid, "op": "file_rt", "schema": proj.pj(raw), "records": [proj.pv(r) for r in records], "codec": proj.cps(codec),
            "interval": interval, "level": -1 if level is None else level,
            "meta": pmeta({k: v for k, v in (meta or {}).items() if not k.startswith("avro.")}), "sync": list(sync),
            "kind_out": kind_out, "kind_in": kind_in, "form": "parsed" if parsed_form else "raw", "calls_out": [], "calls_in": []}
    try:
        schema = fa.parse_schema(raw) if parsed_form else raw
        fa.parse_schema(raw)
    except Exception as e:  # noqa: BLE001
        case["perr"] = proj.pexc(e)["exc"]
        return case
    shared = meta is not None and "shared" in meta
    kw = dict(codec=codec, sync_interval=interval, metadata=(meta if shared else dict(meta)) if meta is not None else None, sync_marker=sync)
    if level is not None:
        kw["codec_compression_level"] = level
    path = None
    try:
        if kind_out == "pipe":
            fo = streams.PipeOut()
            fa.writer(fo, schema, records, **kw)
            data = fo.getdata()
            case["calls_out"] = sorted(set(fo.log))
        elif session is not None:
            # the Writer object used directly, as an application that survives bad records would: writes that fail after part of the
            # record was encoded are swallowed, whole blocks of a donor file are copied after the application looked into them, flushes
            # come in between. `records` are the records that were submitted successfully, in order.
            from fastavro.write import Writer
            case["session"] = [st[0] for st in session]
            fo = io.BytesIO()
            w = Writer(fo, schema, codec=codec, sync_interval=interval, metadata=kw["metadata"], sync_marker=sync,
                       compression_level=level)
            for st in session:
                if st[0] == "good":
                    w.write(st[1])
                elif st[0] == "bad":
                    try:
                        w.write(st[1])
                        raise AssertionError("the bad record was accepted")
                    except AssertionError:
                        raise
                    except Exception:  # noqa: BLE001
                        pass
                elif st[0] == "flush":
                    w.flush()
                elif st[0] == "wblock":
                    for blk in fa.block_reader(io.BytesIO(st[1])):
                        if st[2]:
                            list(blk)              # the application looks at the records before copying the block
                        w.write_block(blk)
            w.flush()
            data = fo.getvalue()
        elif append_at is not None:
            # the file is written by one writer() call and extended by a second one (append mode: the stream is positioned at its end);
            # the second call names another codec, the header's one governs
            case["append_at"] = append_at
            sync2 = bytes(255 - b for b in sync) if sync else b""       # the header's marker governs, whatever the second call names
            if kind_out == "file":
                path = os.path.join(tmpdir, cid + ".avro")
                with open(path, "wb") as fo:
                    fa.writer(fo, schema, records[:append_at], **kw)
                with open(path, "a+b") as fo:
                    fa.writer(fo, schema, records[append_at:], codec=codec2, sync_interval=max(1, interval // 2), sync_marker=sync2)
                with open(path, "rb") as f:
                    data = f.read()
            else:
                fo = io.BytesIO()
                fa.writer(fo, schema, records[:append_at], **kw)
                if append_at % 2 == 1:
                    fo.seek(4)             # the application looked at the magic bytes in between: appending still goes to the end
                fa.writer(fo, schema, records[append_at:], codec=codec2, sync_interval=max(1, interval // 2), sync_marker=sync2)
                data = fo.getvalue()
        elif kind_out == "file":
            path = os.path.join(tmpdir, cid + ".avro")
            with open(path, "wb") as fo:
                fa.writer(fo, schema, records, **kw)
                with open(path, "rb") as f:       # read while the writing handle is still open: writer() must have flushed it
                    data = f.read()
        else:
            fo = io.BytesIO()
            fa.writer(fo, schema, records, **kw)
            data = fo.getvalue()
        case["wrote"] = {"ok": True}
    except Exception as e:  # noqa: BLE001
        case["wrote"] = {"ok": False, "exc": proj.pexc(e)["exc"], "msg": proj.cps(str(e)[:200])}
        case.update(file=[], hs={"text": [], "tree": proj.pj(None)}, inflate=[], walk=[], hend=0, read={"ok": False}, br={"ok": False})
        return case
    case["file"] = list(data)
    try:
        case.update(container.describe(data))
    except Exception as e:  # noqa: BLE001 - framing the walker cannot follow: TLC's parser decides
        case.update(hs={"text": [], "tree": proj.pj(None)}, inflate=[], walk=[], hend=0, walker_error=proj.cps(repr(e)[:100]))
    # read back with nothing but the file
    try:
        if kind_in == "seq":
            fi = streams.SeqIn(data)
        elif kind_in == "file" and path:
            fi = open(path, "rb")
        else:
            fi = io.BytesIO(data)
        try:
            rd = fa.reader(fi)
            recs = list(rd)
            case["read"] = {"ok": True, "recs": [proj.pv(r) for r in recs], "wschema": proj.pj(proj.strip_parsed(rd.writer_schema)),
                            "codec": proj.cps(rd.codec), "meta": pmeta(rd.metadata)}
            if kind_in == "seq":
                case["calls_in"] = sorted(set(fi.log))
        finally:
            if kind_in == "file" and path:
                fi.close()
    except Exception as e:  # noqa: BLE001
        case["read"] = {"ok": False, "exc": proj.pexc(e)["exc"], "msg": proj.cps(str(e)[:200])}
        if kind_in == "seq":
            case["calls_in"] = sorted(set(fi.log))
    try:
        blocks = []
        for b in fa.block_reader(io.BytesIO(data)):
            blocks.append({"off": b.offset, "size": b.size, "n": b.num_records, "recs": [proj.pv(r) for r in b]})
        case["br"] = {"ok": True, "blocks": blocks}
    except Exception as e:  # noqa: BLE001
        case["br"] = {"ok": False, "exc": proj.pexc(e)["exc"]}
    if path:
        os.unlink(path)
    return case


class _Unwritable:
    """A field value no writer accepts."""


def make_session(fa, rnd, g, ir, raw, records, codecs):
    """A plan for a Writer-object session over the given conforming records: good writes, writes that fail on their LAST field (after the
    earlier fields were encoded), flushes, and copies of whole blocks of a donor file (optionally iterated first)."""
    last = ir["fields"][-1]["name"]
    lt = g.resolve(ir["fields"][-1]["type"])
    if lt["k"] == "prim" and lt["name"] in ("null", "boolean"):
        return None              # a null / boolean field is written whatever the value (truthiness)
    plan = []
    for r in records:
        x = rnd.random()
        if x < 0.3 and isinstance(r, dict):
            # half of the time the record that fails is the longest one and the next good one the shortest, flushed at once
            # (what is left of the failed record must not survive in the block)
            base = max(records, key=lambda q: len(repr(q))) if rnd.random() < 0.5 else r
            bad = dict(base)
            bad[last] = _Unwritable()
            plan.append(("bad", bad))
            if rnd.random() < 0.5:
                plan.append(("good", min(records, key=lambda q: len(repr(q)))))
                plan.append(("flush",))
        if x > 0.85:
            plan.append(("flush",))
        plan.append(("good", r))
        if rnd.random() < 0.15:
            try:
                sub = [rnd.choice(records) for _ in range(rnd.choice([1, 2, 3]))]
                fo = io.BytesIO()
                fa.writer(fo, raw, sub, codec=rnd.choice(codecs), sync_interval=rnd.choice([1, 100000]))
                plan.append(("wblock", fo.getvalue(), rnd.random() < 0.6, sub))
            except Exception:  # noqa: BLE001
                pass
    if not any(st[0] in ("bad", "wblock") for st in plan):
        return None
    return plan


def make_cases(ctx, fa, n, label="f"):
    rnd = ctx.sub_rnd(label)
    codecs = available_codecs(fa)
    ctx.extra["codecs"] = codecs
    cases = []
    tmp = tempfile.mkdtemp(prefix="verif_c04_", dir=core.tlc.WORK)
    tries = 0
    shared_meta = {"shared": "metadata dict reused by several writer() calls"}
    while len(cases) < n and tries < n * 5:
        tries += 1
        g = gen.Gen(rnd, logical=rnd.random() < 0.2, max_depth=rnd.choice([1, 2, 2]), big=False)
        top = rnd.choice(["record"] * 6 + ["union", "array", "map", "enum", "fixed", "prim", "prim"])
        ir = g.schema(top=top)
        raw = g.render(ir)
        nrec = rnd.choice([0, 1, 1, 2, 3, 5, 8, 20, 70])
        try:
            records = [g.datum(ir) for _ in range(nrec)]
        except (gen.NoDatum, RecursionError):
            continue
        codec = rnd.choice(codecs)
        total = 0
        try:
            bio = io.BytesIO()
            for r in records:
                fa.schemaless_writer(bio, raw, r)
            total = bio.tell()
        except Exception:  # noqa: BLE001
            pass
        first = 0
        interval = rnd.choice([1, 2, 7, 16, 64, 100, 1000, 16000, max(1, total), max(1, total - 1), total + 1, max(1, total // 2)])
        level = rnd.choice([None, None, 1, 6, 9, 0, -1]) if codec in ("deflate",) else None
        meta = rnd.choice([None, {}, {"k": "v"}, {"user.key": "värde €", "a": ""}, {"x" * 70: "y" * 300}, "shared", "shared"])
        if meta == "shared":
            meta = shared_meta          # the same dict object handed to one writer() call after another, as an application would
        sync = rnd.choice([b"", bytes(rnd.getrandbits(8) for _ in range(16)), bytes(range(16)), b"\x00" * 16])
        kind_out = rnd.choice(["bytesio", "bytesio", "pipe", "file"])
        kind_in = rnd.choice(["bytesio", "seq", "seq", "file"]) if kind_out == "file" else rnd.choice(["bytesio", "seq"])
        append_at = None
        session = None
        if kind_out in ("bytesio", "file") and nrec >= 1 and rnd.random() < 0.2:
            append_at = rnd.randint(0, nrec)
        elif ir["k"] == "record" and len(ir["fields"]) >= 2 and 1 <= nrec <= 20 and rnd.random() < 0.35:
            session = make_session(fa, rnd, g, ir, raw, records, codecs)
            if session is not None:
                kind_out = "bytesio"
                records = [r for st in session for r in (st[3] if st[0] == "wblock" else [st[1]] if st[0] == "good" else [])]
        c = file_case(fa, "%s%d" % (label, len(cases)), raw, records, codec=codec, interval=interval, level=level, meta=meta, sync=sync,
                      parsed_form=rnd.random() < 0.4, kind_out=kind_out, kind_in=kind_in, tmpdir=tmp, append_at=append_at,
                      codec2=rnd.choice(codecs), session=session)
        c["nrec"] = nrec
        cases.append(c)
    try:
        os.rmdir(tmp)
    except OSError:
        pass
    return cases


def nontrivial(c):
    return len(c.get("walk", [])) >= 1 and c.get("nrec", 0) >= 1


def describe(c):
    return "codec=%s interval=%s out=%s in=%s nrec=%s schema=%s" % (proj.uncps(c["codec"]), c["interval"], c["kind_out"], c["kind_in"],
                                                                     c.get("nrec"), repr(proj.unpj(c["schema"]))[:140])


def run(ctx, fa, own):
    n = 800 if ctx.quick() else 6000
    cases = make_cases(ctx, fa, n)
    ctx.rule = ("seeded product: schema of every top-level kind x record lists (0..70 records, zero-byte records) x codec in the importable "
                "{null, deflate, bzip2, xz} x sync_interval {1 .. total+1} x compression level x metadata x sync marker x raw/parsed schema x "
                "stream kind (BytesIO, real file, read-only sequential input, write-only non-seekable output) x written in one call or extended by a second "
                "writer() call in append mode under another codec argument; non-trivial = >= 1 block and "
                ">= 1 record; distinct by SHA-256 of the case")
    core.judge_cases(ctx, cases, "files", own, nontrivial_fn=nontrivial, describe=describe)
    ctx.extra["files_with_2plus_blocks"] = sum(1 for c in cases if len(c.get("walk", [])) >= 2)
    ctx.extra["files_by_codec"] = {k: sum(1 for c in cases if proj.uncps(c["codec"]) == k) for k in ctx.extra["codecs"]}
    ctx.extra["writer_object_sessions"] = sum(1 for c in cases if "session" in c)
    ctx.extra["files_extended_in_append_mode"] = sum(1 for c in cases if "append_at" in c)
    ctx.extra["pipe_outputs"] = sum(1 for c in cases if c["kind_out"] == "pipe")
    ctx.extra["seq_inputs"] = sum(1 for c in cases if c["kind_in"] == "seq")
    for c in cases[:3]:
        ctx.sample({"schema": proj.unpj(c["schema"]), "codec": proj.uncps(c["codec"]), "interval": c["interval"], "records": len(c["records"]),
                    "blocks": c.get("walk"), "file_len": len(c.get("file", []))})


def run_c04(ctx, fa):
    run(ctx, fa, ("C04.",))


# ---------------------------------------------------------------------------- C05: independent writer, is_avro, fixtures
def _varint(n):
    z = (n << 1) ^ (n >> 63)
    out = bytearray()
    while z & ~0x7F:
        out.append((z & 0x7F) | 0x80)
        z >>= 7
    out.append(z)
    return bytes(out)


def independent_files(ctx, fa, n):
    """Spec-generated layout-valid files (TLC GenFile) assembled with standard-library compression, offered to fastavro."""
    import json as _json
    from . import tlc
    rnd = ctx.sub_rnd("ind")
    codecs = available_codecs(fa)
    inputs = []
    keep = {}
    tries = 0
    while len(inputs) < n and tries < 6 * n:
        tries += 1
        g = gen.Gen(rnd, logical=False, max_depth=rnd.choice([1, 2]), big=False)
        ir = g.schema(top=rnd.choice(["record"] * 4 + ["prim", "array", "union", "enum", "map"]))
        raw = g.render(ir)
        try:
            fa.parse_schema(raw)
            records = [g.datum(ir, hints=False) for _ in range(rnd.choice([0, 1, 2, 3, 5, 8]))]
        except Exception:  # noqa: BLE001
            continue
        codec = rnd.choice(codecs)
        text = _json.dumps(raw, ensure_ascii=rnd.random() < 0.5).encode()
        cid = "g%d" % len(inputs)
        sync = bytes(rnd.getrandbits(8) for _ in range(16))
        withkey = codec != "null" or rnd.random() < 0.5
        um = rnd.choice([[], [("user", b"x")], [("a", b""), ("bé", bytes(range(40)))]])
        inputs.append({"id": cid, "op": "genfile", "stext": list(text), "stree": proj.pj(_json.loads(text)), "records": [proj.pv(r) for r in records],
                       "codec": proj.cps(codec), "codeckey": withkey, "usermeta": [{"k": proj.cps(k), "v": list(v)} for k, v in um],
                       "sync": list(sync), "choices": [rnd.randint(0, 1000) for _ in range(24)]})
        keep[cid] = (raw, codec, sync, text)
    res = tlc.run_cases(inputs, "%s-%s-genfile" % (ctx.prop, ctx.tier), module="GenFile")
    ctx.add_model(res["transitions"], res["states"])
    ctx.checker_cmds.append("tlc GenFile.tla: independent-writer files for %d cases" % len(inputs))
    for cid, msg in res["crashes"]:
        ctx.machinery.append("TLC evaluation error in GenFile on %s: %s" % (cid, msg[:300]))
    cases = []
    stats = {"empty_blocks": 0, "multi_block": 0, "no_codec_key": 0}
    for inp in inputs:
        gfile = res["results"][inp["id"]]
        if not isinstance(gfile, dict) or gfile.get("st") != "ok":
            if isinstance(gfile, dict) and gfile.get("st", "").startswith("H."):
                ctx.machinery.append("generator produced an invalid GenFile case %s: %s" % (inp["id"], gfile["st"]))
            continue
        raw, codec, sync, text = keep[inp["id"]]
        data = bytearray(bytes(gfile["hdr"]))
        table = []
        for b in gfile["blocks"]:
            plain = bytes(b["payload"])
            comp = container.compress(codec, plain)
            if codec != "null":
                table.append({"c": list(comp), "d": list(plain), "ok": True})
            data += _varint(b["count"]) + _varint(len(comp)) + comp + sync
        data = bytes(data)
        stats["empty_blocks"] += sum(1 for b in gfile["blocks"] if b["count"] == 0)
        stats["multi_block"] += 1 if len(gfile["blocks"]) >= 2 else 0
        stats["no_codec_key"] += 0 if inp["codeckey"] else 1
        case = {"id": "i" + inp["id"], "op": "file_ind", "file": list(data), "hs": {"text": list(text), "tree": inp["stree"]},
                "inflate": table, "expect": gfile["expect"], "nblocks": len(gfile["blocks"]), "codec": inp["codec"], "schema": inp["stree"]}
        try:
            rd = fa.reader(io.BytesIO(data))
            recs = list(rd)
            case["read"] = {"ok": True, "recs": [proj.pv(r) for r in recs], "codec": proj.cps(rd.codec)}
        except Exception as e:  # noqa: BLE001
            case["read"] = {"ok": False, "exc": proj.pexc(e)["exc"], "msg": proj.cps(str(e)[:200])}
        try:
            blocks = []
            for b in fa.block_reader(io.BytesIO(data)):
                blocks.append({"off": b.offset, "size": b.size, "n": b.num_records, "recs": [proj.pv(r) for r in b]})
            case["br"] = {"ok": True, "blocks": blocks}
        except Exception as e:  # noqa: BLE001
            case["br"] = {"ok": False, "exc": proj.pexc(e)["exc"]}
        cases.append(case)
    ctx.extra["independent_writer"] = dict(stats, files=len(cases))
    return cases


def is_avro_cases(ctx, fa, n):
    rnd = ctx.sub_rnd("isavro")
    magic = b"Obj\x01"
    pool = [b"", b"O", b"Ob", b"Obj", magic, magic + b"junk", b"Obj\x00", b"Obj\x02", b"obj\x01", b"\x01jbO", magic * 2, b"XObj\x01", b"Obj\x01\x00"]
    while len(pool) < n:
        k = rnd.choice([0, 1, 2, 3, 4, 5, 8, 30])
        b = bytes(rnd.getrandbits(8) for _ in range(k))
        if rnd.random() < 0.4:
            b = magic[:rnd.randint(0, 4)] + b
        pool.append(b)
    cases = []
    for i, b in enumerate(pool):
        c = {"id": "m%d" % i, "op": "is_avro", "data": list(b)}
        try:
            c["result"] = bool(fa.is_avro(io.BytesIO(b)))
            c["ok"] = True
        except Exception as e:  # noqa: BLE001
            c["ok"] = False
            c["result"] = False
        cases.append(c)
    return cases


def fixture_cases(ctx, fa, limit_bytes):
    """Java-written fixture files shipped with the test-suite: fastavro's records must equal the spec parser's."""
    import glob
    out = []
    for path in sorted(glob.glob(os.path.join(ctx.repo, "tests", "avro-files", "*.avro"))):
        data = open(path, "rb").read()
        if len(data) > limit_bytes:
            continue
        try:
            desc = container.describe(data)
            if container.walk(data, strict=False)["meta"].get("avro.codec", b"null").decode() not in ("null", "deflate", "bzip2", "xz"):
                continue      # no standard-library decompressor (snappy, zstandard, lz4)
        except Exception:  # noqa: BLE001 - not a container
            continue
        case = {"id": "fx_" + os.path.basename(path), "op": "file_ind", "file": list(data), "hs": desc["hs"], "inflate": desc["inflate"],
                "nblocks": len(desc["walk"]), "fixture": os.path.basename(path)}
        try:
            rd = fa.reader(io.BytesIO(data))
            recs = list(rd)
            case["read"] = {"ok": True, "recs": [proj.pv(r) for r in recs], "codec": proj.cps(rd.codec)}
        except Exception as e:  # noqa: BLE001
            case["read"] = {"ok": False, "exc": proj.pexc(e)["exc"]}
        try:
            blocks = [{"off": b.offset, "size": b.size, "n": b.num_records, "recs": [proj.pv(r) for r in b]} for b in fa.block_reader(io.BytesIO(data))]
            case["br"] = {"ok": True, "blocks": blocks}
        except Exception as e:  # noqa: BLE001
            case["br"] = {"ok": False, "exc": proj.pexc(e)["exc"]}
        out.append(case)
    return out


def run_c05(ctx, fa):  # noqa: F811 - the full C05 check
    run(ctx, fa, ("C05.",))
    ind = independent_files(ctx, fa, 150 if ctx.quick() else 2500)
    core.judge_cases(ctx, ind, "ind", ("C05.",), nontrivial_fn=lambda c: c["nblocks"] >= 1,
                     describe=lambda c: "independent-writer file, %d blocks, codec %s" % (c["nblocks"], proj.uncps(c["codec"])))
    from . import p_cuts, p_suite
    if not ctx.quick():
        p_suite.run(ctx, {"t_file"}, ("C05.",))
    # the converse half of C06, owned by C05: a file cut exactly at a block boundary is a layout-valid file and reads back as the blocks before the cut
    rnd = ctx.sub_rnd("boundary")
    bfiles = p_cuts.make_files(ctx, fa, 15 if ctx.quick() else 150, "bfiles")
    core.judge_cases(ctx, [p_cuts.cuts_case(fa, "bc%d" % i, d, rnd, True) for i, d in enumerate(bfiles)], "boundary", ("C05.",),
                     nontrivial_fn=lambda c: c["nblocks"] >= 1, describe=lambda c: "file_len=%d blocks=%d" % (len(c["file"]), c["nblocks"]))
    # Java-written fixture files shipped with the test-suite (those whose codec the standard library can inflate)
    fx = fixture_cases(ctx, fa, 3000 if ctx.quick() else 400000)
    ctx.extra["fixture_files"] = [c["fixture"] for c in fx]
    core.judge_cases(ctx, fx, "fixtures", ("C05.",), nontrivial_fn=lambda c: c["nblocks"] >= 1, describe=lambda c: "fixture %s" % c["fixture"])
    core.judge_cases(ctx, is_avro_cases(ctx, fa, 120 if ctx.quick() else 3000), "isavro", ("C05.",), nontrivial_fn=lambda c: len(c["data"]) >= 4,
                     describe=lambda c: "is_avro(%r)" % bytes(c["data"])[:12])
    ctx.rule += ("; plus spec-generated independent-writer files (any block partition, empty blocks, chunked header map in either count form, codec key "
                 "absent) assembled with standard-library compression and offered to reader/block_reader; is_avro on byte strings around the magic")
