"""C01 / C02: schemaless binary round trip and byte-exact encoding (V direction)."""
import io

from . import core, gen, proj


def sl_roundtrip_case(fa, cid, raw, data, tuples=True, parsed_form=False):
    """Write data back to back on one stream with schemaless_writer, read back one by one; log everything."""
    try:
        schema = fa.parse_schema(raw) if parsed_form else raw
        fa.parse_schema(raw)
    except Exception as e:  # noqa: BLE001 - a generated (valid) schema that fastavro rejects is C11's business
        return {"id": cid, "op": "sl_rt", "schema": proj.pj(raw), "data": [], "tuples": tuples, "writes": [], "reads": [],
                "perr": proj.pexc(e)["exc"]}
    fo = io.BytesIO()
    writes = []
    for d in data:
        before = fo.tell()
        try:
            fa.schemaless_writer(fo, schema, d, disable_tuple_notation=not tuples)
            writes.append({"ok": True, "bytes": list(fo.getvalue()[before:])})
        except Exception as e:  # noqa: BLE001
            fo.seek(before)
            fo.truncate()
            writes.append({"ok": False, "exc": proj.pexc(e)["exc"], "msg": proj.cps(str(e)[:200])})
    fo.seek(0)
    reads = []
    for w in writes:
        if not w["ok"]:
            reads.append({"ok": False, "exc": ["NotWritten"]})
            continue
        try:
            v = fa.schemaless_reader(fo, schema)
            reads.append({"ok": True, "v": proj.pv(v), "pos": fo.tell()})
        except Exception as e:  # noqa: BLE001
            reads.append({"ok": False, "exc": proj.pexc(e)["exc"]})
    return {"id": cid, "op": "sl_rt", "schema": proj.pj(raw), "data": [proj.pv(d) for d in data], "tuples": tuples,
            "writes": writes, "reads": reads, "form": "parsed" if parsed_form else "raw"}


def make_cases(ctx, fa, n, label="rt"):
    rnd = ctx.sub_rnd(label)
    cases = []
    tries = 0
    while len(cases) < n and tries < n * 5:
        tries += 1
        g = gen.Gen(rnd, logical=False, max_depth=rnd.choice([1, 2, 2, 3]), big=(rnd.random() < 0.2))
        g.typed_arrays = True
        ir = g.schema()
        raw = g.render(ir)
        k = rnd.choice([1, 2, 2, 3])
        try:
            data = [g.datum(ir) for _ in range(k)]
        except (gen.NoDatum, RecursionError):
            continue
        c = sl_roundtrip_case(fa, "%s%d" % (label, len(cases)), raw, data, tuples=True, parsed_form=rnd.random() < 0.4)
        c["nodes"] = gen.count_nodes(ir)
        cases.append(c)
    return cases


def nontrivial(c):
    return c.get("nodes", 1) >= 2 and any(w["ok"] and len(w["bytes"]) >= 2 for w in c["writes"])


def describe(c):
    s = proj.unpj(c["schema"])
    return "schema=%s" % (repr(s)[:200])


def run(ctx, fa, own):
    n = 2000 if ctx.quick() else 14000
    cases = make_cases(ctx, fa, n)
    ctx.rule = ("seeded generator: schemas over all eight primitives, records, enums, fixed, arrays, maps, unions, by-name and recursive "
                "references, namespaces (raw or pre-parsed); 1-3 data per schema written back to back; boundary pools for ints, floats, strings, "
                "collections; non-trivial = schema has >= 2 nodes and some encoding has >= 2 bytes; distinct by SHA-256 of the case")
    # directed: the 32-bit boundary offered to unions whose int branch comes before long / double (and the other way round)
    brnd = ctx.sub_rnd("bound")
    for i in range(24 if ctx.quick() else 240):
        u = brnd.choice([["int", "long"], ["null", "int", "long"], ["int", "double"], ["long", "int"], ["int", "string", "long"], ["boolean", "int", "long"]])
        vals = [brnd.choice([2 ** 31, -2 ** 31 - 1, 2 ** 31 - 1, -2 ** 31, 2 ** 63 - 1, -2 ** 63, 0, 1]) for _ in range(3)]
        raw = u if brnd.random() < 0.4 else {"type": "record", "name": "B", "fields": [{"name": "v", "type": u}, {"name": "w", "type": {"type": "array", "items": u}}]}
        data = vals if isinstance(raw, list) else [{"v": vals[0], "w": vals[1:]}]
        c = sl_roundtrip_case(fa, "b%d" % i, raw, data, tuples=True, parsed_form=brnd.random() < 0.4)
        c["nodes"] = 3
        cases.append(c)
    core.judge_cases(ctx, cases, "rt", own, nontrivial_fn=nontrivial, describe=describe)
    if own == ("C02.",):
        # the encoder as driven by the container writer: block payloads of Writer-object sessions (failed writes in between, copied blocks)
        from . import p_file
        fcases = [c for c in p_file.make_cases(ctx, fa, 500 if ctx.quick() else 4000, label="c02files") if "session" in c or "append_at" in c]
        ctx.extra["container_payload_files"] = len(fcases)
        core.judge_cases(ctx, fcases, "payload", own, nontrivial_fn=p_file.nontrivial, describe=p_file.describe)
    for c in cases[:3]:
        ctx.sample({"schema": proj.unpj(c["schema"]), "data": [repr(proj.unpv(d))[:120] for d in c["data"]],
                    "bytes": [bytes(w["bytes"]).hex()[:80] if w["ok"] else w["exc"] for w in c["writes"]]})


INVS = ["InvConformsEncodes", "InvRoundTrip", "InvMatchCanon", "InvPrefixFree", "InvPartition", "InvConcat", "InvNormIdempotent"]


def model_and_replay(ctx, fa, clauses):
    """M: the spec's own properties on the bounded universe; G: every case of that universe replayed into the implementation."""
    from . import mcheck, p_layout
    depth = 1 if ctx.quick() else 2
    mcheck.model_check(ctx, "MC_Binary", {"Depth": depth}, INVS, "inv")
    cases = mcheck.emit(ctx, "MC_Binary", {"Depth": depth}, "emit")
    ctx.extra["universe_cases_replayed"] = len(cases)
    if len(cases) < 100:
        ctx.machinery.append("MC_Binary printed only %d cases" % len(cases))
    for i, c in enumerate(cases):
        raw = mcheck.tree_to_raw(c["t"])
        datum = proj.unpv(c["v"])
        want = bytes(c["b"])
        rec = {"id": "G%d" % i, "op": "g_binary", "schema": raw, "datum": repr(datum), "bytes": c["b"]}
        fo = io.BytesIO()
        try:
            fa.schemaless_writer(fo, raw, datum)
            got = fo.getvalue()
        except Exception as e:  # noqa: BLE001
            got = None
            rec["write_exc"] = type(e).__name__
        ctx.mark("G" + core.case_key([raw, c["v"]]), len(want) >= 2)
        ctx.traces += 1
        if "C02." in clauses:
            if got == want:
                ctx.count("C02.universe", "ok")
            else:
                ctx.count("C02.universe", "fail")
                ctx.violations.append(("C02.universe", dict(rec, got=list(got) if got is not None else None), "schema=%r datum=%r" % (raw, datum)))
        if "C01." in clauses or "C03." in clauses:
            inputs = [want] if "C01." in clauses else [bytes(l) for l in c["layouts"]]
            clause = "C01.universe" if "C01." in clauses else "C03.universe"
            okall = True
            for data in inputs:
                kind, v, pos = p_layout.read_outcome(fa, data, raw)
                if not (kind == "value" and p_layout.veq(proj.pv(v), c["expect"]) and pos == len(data)):
                    okall = False
                    ctx.violations.append((clause, dict(rec, input=list(data), got=repr(v)[:200]), "schema=%r bytes=%s" % (raw, data.hex())))
                    break
            ctx.count(clause, "ok" if okall else "fail")


def run_c01(ctx, fa):
    model_and_replay(ctx, fa, ("C01.",))
    run(ctx, fa, ("C01.",))
    ctx.exhaustive = False


def run_c02(ctx, fa):
    from . import p_suite
    model_and_replay(ctx, fa, ("C02.",))
    run(ctx, fa, ("C02.",))
    # the repository's own tests as inputs: every schemaless_writer call they make, judged by MatchCanon
    if not ctx.quick():
        p_suite.run(ctx, {"t_sl_write"}, ("C02.",))
