"""C01 / C02: schemaless binary round trip and byte-exact encoding (V direction)."""
import io

from . import core, gen, proj


def sl_roundtrip_case(fa, cid, raw, data, tuples=True, parsed_form=False):
    """Write data back to back on one stream with schemaless_writer, read back one by one; log everything."""
    try:
        schema = fa.parse_schema(raw) if parsed_form else raw
        fa.parse_schema(raw)
    except Exception as e:  # noqa: BLE001 - a generated (valid) schema that fastavro rejects is C11's business
        return {"id": cid, "op": "sl_rt", "schema": proj.pj(raw), "data": [], "tuples": tuples, "writes": [], "reads": [],
                "perr": proj.pexc(e)["exc"]}
    fo = io.BytesIO()
    writes = []
    for d in data:
        before = fo.tell()
        try:
            fa.schemaless_writer(fo, schema, d, disable_tuple_notation=not tuples)
            writes.append({"ok": True, "bytes": list(fo.getvalue()[before:])})
        except Exception as e:  # noqa: BLE001
            fo.seek(before)
            fo.truncate()
            writes.append({"ok": False, "exc": proj.pexc(e)["exc"], "msg": proj.cps(str(e)[:200])})
    fo.seek(0)
    reads = []
    for w in writes:
        if not w["ok"]:
            reads.append({"ok": False, "exc": ["NotWritten"]})
            continue
        try:
            v = fa.schemaless_reader(fo, schema)
            reads.append({"ok": True, "v": proj.pv(v), "pos": fo.tell()})
        except Exception as e:  # noqa: BLE001
            reads.append({"ok": False, "exc": proj.pexc(e)["exc"]})
    return {"id": cid, "op": "sl_rt", "schema": proj.pj(raw), "data": [proj.pv(d) for d in data], "tuples": tuples,
            "writes": writes, "reads": reads, "form": "parsed" if parsed_form else "raw"}


def make_cases(ctx, fa, n, label="rt"):
    rnd = ctx.sub_rnd(label)
    cases = []
    tries = 0
    while len(cases) < n and tries < n * 5:
        tries += 1
        g = gen.Gen(rnd, logical=False, max_depth=rnd.choice([1, 2, 2, 3]), big=(rnd.random() < 0.2))
        ir = g.schema()
        raw = g.render(ir)
        k = rnd.choice([1, 2, 2, 3])
        try:
            data = [g.datum(ir) for _ in range(k)]
        except (gen.NoDatum, RecursionError):
            continue
        c = sl_roundtrip_case(fa, "%s%d" % (label, len(cases)), raw, data, tuples=True, parsed_form=rnd.random() < 0.4)
        c["nodes"] = gen.count_nodes(ir)
        cases.append(c)
    return cases


def nontrivial(c):
    return c.get("nodes", 1) >= 2 and any(w["ok"] and len(w["bytes"]) >= 2 for w in c["writes"])


def describe(c):
    s = proj.unpj(c["schema"])
    return "schema=%s" % (repr(s)[:200])


def run(ctx, fa, own):
    n = 1200 if ctx.quick() else 12000
    cases = make_cases(ctx, fa, n)
    ctx.rule = ("seeded generator: schemas over all eight primitives, records, enums, fixed, arrays, maps, unions, by-name and recursive "
                "references, namespaces (raw or pre-parsed); 1-3 data per schema written back to back; boundary pools for ints, floats, strings, "
                "collections; non-trivial = schema has >= 2 nodes and some encoding has >= 2 bytes; distinct by SHA-256 of the case")
    core.judge_cases(ctx, cases, "rt", own, nontrivial_fn=nontrivial, describe=describe)
    for c in cases[:3]:
        ctx.sample({"schema": proj.unpj(c["schema"]), "data": [repr(proj.unpv(d))[:120] for d in c["data"]],
                    "bytes": [bytes(w["bytes"]).hex()[:80] if w["ok"] else w["exc"] for w in c["writes"]]})


def run_c01(ctx, fa):
    run(ctx, fa, ("C01.",))


def run_c02(ctx, fa):
    run(ctx, fa, ("C02.",))
