"""pytest plugin (-p harness.suite_plugin): run the repository's own test-suite with the public entry points wrapped so that every call whose
arguments project is logged as a case; TLC then judges each logged call against the spec (the CCF idea: existing tests, stronger assertions).
Only add-only wrappers in this process; the repository is not modified."""
import io
import json
import os

from . import proj

OUT = os.environ.get("VERIF_SUITE_LOG")
LIMIT = 4000          # bytes / elements: keep cases small enough for TLC
_log = []
_n = [0]


def _raw(schema):
    return proj.strip_parsed(schema)


def _small(x):
    try:
        return len(json.dumps(x)) < 60000
    except Exception:  # noqa: BLE001
        return False


def _emit(ev):
    _n[0] += 1
    ev["id"] = "T%d" % _n[0]
    if _small(ev):
        _log.append(ev)


def _test():
    return os.environ.get("PYTEST_CURRENT_TEST", "").split(" ")[0]


def install():
    import fastavro
    import fastavro.schema as fschema
    import fastavro.validation as fval
    import fastavro._write_py as W
    import fastavro._read_py as R
    import fastavro._schema_py as S
    import fastavro._validation_py as V

    orig_slw = W.schemaless_writer

    def schemaless_writer(fo, schema, record, **kw):
        pos0 = fo.tell() if isinstance(fo, io.BytesIO) else None
        try:
            out = orig_slw(fo, schema, record, **kw)
        except Exception as e:
            try:
                _emit({"op": "t_sl_write", "schema": proj.pj(_raw(schema)), "datum": proj.pv(record), "kw": _kw(kw), "ok": False,
                       "exc": proj.pexc(e)["exc"], "bytes": [], "test": _test()})
            except Exception:  # noqa: BLE001 - unprojectable arguments: not logged
                pass
            raise
        if pos0 is not None:
            try:
                _emit({"op": "t_sl_write", "schema": proj.pj(_raw(schema)), "datum": proj.pv(record), "kw": _kw(kw), "ok": True,
                       "bytes": list(fo.getvalue()[pos0:]), "test": _test()})
            except Exception:  # noqa: BLE001
                pass
        return out

    orig_slr = R.schemaless_reader

    def schemaless_reader(fo, writer_schema, reader_schema=None, **kw):
        pos0 = fo.tell() if isinstance(fo, io.BytesIO) else None
        out = orig_slr(fo, writer_schema, reader_schema, **kw)
        if pos0 is not None and not any(kw.values()):
            try:
                _emit({"op": "t_sl_read", "w": proj.pj(_raw(writer_schema)), "has_r": reader_schema is not None,
                       "r": proj.pj(_raw(reader_schema)) if reader_schema is not None else proj.pj(None),
                       "bytes": list(fo.getvalue()[pos0:fo.tell()]), "v": proj.pv(out), "test": _test()})
            except Exception:  # noqa: BLE001
                pass
        return out

    orig_val = V.validate

    def validate(datum, schema, field="", raise_errors=True, strict=False, disable_tuple_notation=False):
        try:
            out = orig_val(datum, schema, field, raise_errors, strict, disable_tuple_notation)
            res = {"ok": True, "v": proj.pv(out)}
        except Exception as e:
            res = {"ok": False, "exc": proj.pexc(e)["exc"]}
            try:
                _emit({"op": "t_validate", "schema": proj.pj(_raw(schema)), "datum": proj.pv(datum), "raise_errors": bool(raise_errors),
                       "strict": bool(strict), "tuples": not disable_tuple_notation, "res": res, "test": _test()})
            except Exception:  # noqa: BLE001
                pass
            raise
        try:
            _emit({"op": "t_validate", "schema": proj.pj(_raw(schema)), "datum": proj.pv(datum), "raise_errors": bool(raise_errors),
                   "strict": bool(strict), "tuples": not disable_tuple_notation, "res": res, "test": _test()})
        except Exception:  # noqa: BLE001
            pass
        return out

    orig_canon = S.to_parsing_canonical_form

    def to_parsing_canonical_form(schema):
        out = orig_canon(schema)
        try:
            _emit({"op": "t_canon", "schema": proj.pj(_raw(schema)), "text": proj.cps(out), "test": _test()})
        except Exception:  # noqa: BLE001
            pass
        return out

    orig_fp = S.fingerprint

    def fingerprint(parsing_canonical_form, algorithm):
        out = orig_fp(parsing_canonical_form, algorithm)
        if algorithm == "CRC-64-AVRO":
            try:
                _emit({"op": "fingerprint", "text": proj.cps(parsing_canonical_form), "alg": proj.cps(algorithm), "known": [],
                       "res": {"ok": True, "hex": proj.cps(out)}, "test": _test()})
            except Exception:  # noqa: BLE001
                pass
        return out

    orig_writer = W.writer

    def writer(fo, schema, records, *a, **kw):
        recs = records
        logit = isinstance(fo, io.BytesIO) and fo.tell() == 0 and isinstance(records, (list, tuple)) and not a
        out = orig_writer(fo, schema, recs, *a, **kw)
        if logit and len(records) <= 50 and not (kw.get("strict") or kw.get("strict_allow_default") or kw.get("disable_tuple_notation")):
            try:
                from . import container
                data = fo.getvalue()
                ev = {"op": "t_file", "schema": proj.pj(_raw(schema)), "records": [proj.pv(r) for r in records], "file": list(data), "test": _test()}
                ev.update({k: v for k, v in container.describe(data).items() if k in ("hs", "inflate")})
                _emit(ev)
            except Exception:  # noqa: BLE001
                pass
        return out

    for mod, name, fn in [(fastavro, "schemaless_writer", schemaless_writer), (fastavro.write, "schemaless_writer", schemaless_writer),
                          (fastavro, "schemaless_reader", schemaless_reader), (fastavro.read, "schemaless_reader", schemaless_reader),
                          (fval, "validate", validate), (fastavro, "validate", validate),
                          (fschema, "to_parsing_canonical_form", to_parsing_canonical_form), (fschema, "fingerprint", fingerprint),
                          (fastavro, "writer", writer), (fastavro.write, "writer", writer)]:
        if hasattr(mod, name):
            setattr(mod, name, fn)


def _kw(kw):
    return {"strict": bool(kw.get("strict")), "strict_allow_default": bool(kw.get("strict_allow_default")), "tuples": not kw.get("disable_tuple_notation")}


def pytest_configure(config):
    if OUT:
        install()


def pytest_unconfigure(config):
    if OUT:
        with open(OUT, "w") as f:
            for ev in _log:
                f.write(json.dumps(ev, separators=(",", ":")))
                f.write("\n")
