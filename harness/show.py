"""Pretty-print a replay file (debug aid)."""
import json, sys
from . import proj
def main(p):
    b = json.load(open(p)); c = b["case"]
    print("clause", b["clause"], "op", c["op"], "id", c["id"])
    if "schema" in c: print("schema:", json.dumps(proj.unpj(c["schema"])))
    for k, d in enumerate(c.get("data", [])):
        print(" datum[%d]: %r" % (k, proj.unpv(d)))
        w = c["writes"][k]; print("  write:", bytes(w["bytes"]).hex() if w["ok"] else w)
        r = c["reads"][k]; print("  read :", repr(proj.unpv(r["v"])) if r["ok"] else r, r.get("pos"))
    for k in c:
        if k not in ("schema","data","writes","reads","id","op"): print(" ", k, "=", json.dumps(c[k])[:300])
if __name__ == "__main__": main(sys.argv[1])
