"""C19: load_schema / load_schema_ordered from per-type files (V direction)."""
import io
import json
import os
import shutil
import tempfile

from . import core, gen, proj, p_resolve


def split_files(g, ir, rnd):
    """IR -> {full name: raw schema} with every named type in its own file, nested named types replaced by references."""
    files = {}
    order = []       # dependencies first

    def ref_spelling(full, ns):
        tns = g.defs[full]["ns"]
        if tns == ns and tns != "" and rnd.random() < 0.5:
            return full.rsplit(".", 1)[1]
        return full

    def render(t, ns, top):
        k = t["k"]
        if k == "prim":
            if "lt" in t or t.get("ult"):
                return g.render(t)             # logical / unknown annotations in object form
            return t["name"] if rnd.random() < 0.9 else {"type": t["name"]}
        if k == "ref":
            return ref_spelling(t["full"], ns)
        if k == "array":
            return {"type": "array", "items": render(t["items"], ns, False)}
        if k == "map":
            return {"type": "map", "values": render(t["values"], ns, False)}
        if k == "union":
            return [render(b, ns, False) for b in t["br"]]
        # named
        if not top:
            make_file(t)
            return ref_spelling(t["full"], ns)
        tns = t["ns"]
        simple = t["full"].rsplit(".", 1)[-1]
        d = {"type": "error" if t.get("error") else k}
        if tns and rnd.random() < 0.5:
            d["name"] = t["full"]
        else:
            d["name"] = simple
            if tns:
                d["namespace"] = tns
        if k == "enum":
            d["symbols"] = list(t["syms"])
        elif k == "fixed":
            d["size"] = t["size"]
        else:
            d["fields"] = []
            for f in t["fields"]:
                fd = {"name": f["name"], "type": render(f["type"], tns, False)}
                if f["hasdef"]:
                    fd["default"] = f["default"]
                d["fields"].append(fd)
        return d

    def make_file(t):
        if t["full"] in files:
            return
        files[t["full"]] = None
        files[t["full"]] = render(t, "", True)
        order.append(t["full"])

    if ir["k"] in ("record", "enum", "fixed"):
        make_file(ir)
        return files, order, ir["full"]
    return None, None, None


def load_case(fa, cid, files, order, top, missing, data, tmproot):
    from fastavro.schema import load_schema, load_schema_ordered, to_parsing_canonical_form
    d = tempfile.mkdtemp(prefix="repo_", dir=tmproot)
    try:
        for name, sch in files.items():
            if name == missing:
                continue
            with open(os.path.join(d, name + ".avsc"), "w") as f:
                json.dump(sch, f)
        c = {"id": cid, "op": "load", "top": proj.pj(files[top]), "files": [{"name": proj.cps(n), "schema": proj.pj(s)} for n, s in files.items()
                                                                            if n != top and n != missing],
             "missing": proj.cps(missing or ""), "enc": [], "nfiles": len(files)}
        try:
            loaded = load_schema(os.path.join(d, top + ".avsc"))
            c["res"] = {"ok": True, "canon": proj.cps(to_parsing_canonical_form(loaded)), "parsed": proj.pj(proj.strip_parsed(loaded))}
            for dat in data:
                fo = io.BytesIO()
                try:
                    fa.schemaless_writer(fo, loaded, dat)
                    c["enc"].append({"datum": proj.pv(dat), "ok": True, "bytes": list(fo.getvalue())})
                except Exception as e:  # noqa: BLE001
                    c["enc"].append({"datum": proj.pv(dat), "ok": False, "bytes": []})
        except Exception as e:  # noqa: BLE001
            c["res"] = {"ok": False, "exc": proj.pexc(e)["exc"], "msg": proj.cps(str(e)[:300]), "ename": proj.cps(str(getattr(e, "name", "")))}
        if missing:
            c["ordered"] = {"skip": True}
        else:
            try:
                lo = load_schema_ordered([os.path.join(d, n + ".avsc") for n in order])
                c["ordered"] = {"ok": True, "canon": proj.cps(to_parsing_canonical_form(lo))}
            except Exception as e:  # noqa: BLE001
                c["ordered"] = {"ok": False, "canon": [], "exc": proj.pexc(e)["exc"], "msg": proj.cps(str(e)[:200])}
        return c
    finally:
        shutil.rmtree(d, ignore_errors=True)


def run_c19(ctx, fa):
    rnd = ctx.sub_rnd("c19")
    n = 800 if ctx.quick() else 6000
    tmproot = tempfile.mkdtemp(prefix="verif_c19_", dir=core.tlc.WORK)
    cases = []
    tries = 0
    try:
        while len(cases) < n and tries < 10 * n:
            tries += 1
            mode = rnd.random()
            g = gen.Gen(rnd, logical=rnd.random() < 0.5, max_depth=rnd.choice([2, 3, 3, 4]), big=False, recursive=False, ns=mode < 0.75)
            g.letter_suffixes = True
            if mode < 0.75:
                # every type lives in a namespace so that every reference can be spelled from everywhere
                g.pick_ns = lambda enclosing, _g=g: _g.r.choice(["a", "a", "a.b", "x.y"]) if _g.r.random() < 0.5 or not enclosing else enclosing
            ir = g.schema(top="record")
            if len(g.defs) < 2:
                continue
            files, order, top = split_files(g, ir, rnd)
            if not files:
                continue
            try:
                data = [g.datum(ir, hints=False) for _ in range(2)]
            except (gen.NoDatum, RecursionError):
                data = []
            missing = None
            if rnd.random() < 0.25:
                cands = [nm for nm in files if nm != top]
                missing = rnd.choice(cands)
            c = load_case(fa, "L%d" % len(cases), files, order, top, missing, data, tmproot)
            # diamonds / repeated use
            uses = {}
            for _, _, nd in p_resolve.positions(ir):
                if nd["k"] == "ref":
                    uses[nd["full"]] = uses.get(nd["full"], 0) + 1
            c["repeated_use"] = any(v >= 1 for v in uses.values())
            cases.append(c)
    finally:
        shutil.rmtree(tmproot, ignore_errors=True)
    ctx.rule = ("seeded acyclic graphs of records, enums and fixed types split one per file (file named after the full name), referenced from fields, array "
                "items, map values and union branches, with repeated use, qualified and namespace-relative spellings, one or several namespaces or "
                "none; a quarter with one file removed; TLC parses the top schema against the repository (AvroSchema!ParseRepo: definition inlined at first "
                "use) and compares canonical text, the parsed result, the bytes of data written under the loaded schema, load_schema_ordered, and the "
                "name reported for the missing file; non-trivial = >= 2 files")
    core.judge_cases(ctx, cases, "load", ("C19.",), nontrivial_fn=lambda c: c["nfiles"] >= 2,
                     describe=lambda c: "files=%d missing=%s top=%s" % (c["nfiles"], proj.uncps(c["missing"]), json.dumps(proj.unpj(c["top"]))[:200]))
    ctx.extra["with_missing_file"] = sum(1 for c in cases if c["missing"])
    ctx.extra["with_repeated_use"] = sum(1 for c in cases if c["repeated_use"])
    for c in cases[:2]:
        ctx.sample({"top": proj.unpj(c["top"]), "files": {proj.uncps(f["name"]): proj.unpj(f["schema"]) for f in c["files"]}, "missing": proj.uncps(c["missing"])})
