"""C15: the JSON codec (V direction)."""
import io
import json

from . import core, gen, proj


def json_case(fa, cid, raw, records, wut, defaulted):
    from fastavro import json_reader, json_writer
    c = {"id": cid, "op": "json", "schema": proj.pj(raw), "records": [proj.pv(r) for r in records], "wut": wut, "dropped": [], "readdrop": {"ok": False}}
    try:
        fa.parse_schema(raw)
    except Exception as e:  # noqa: BLE001
        c["perr"] = proj.pexc(e)["exc"]
        return c
    fo = io.StringIO()
    try:
        json_writer(fo, raw, records, write_union_type=wut)
        text = fo.getvalue()
        docs = [json.loads(line) for line in text.split("\n")] if text != "" else []
        c["write"] = {"ok": True, "docs": [proj.pj(d) for d in docs]}
    except Exception as e:  # noqa: BLE001
        c["write"] = {"ok": False, "exc": proj.pexc(e)["exc"], "msg": proj.cps(str(e)[:120])}
        c["read"] = {"ok": False}
        return c
    try:
        recs = list(json_reader(io.StringIO(text), raw))
        c["read"] = {"ok": True, "recs": [proj.pv(r) for r in recs]}
    except Exception as e:  # noqa: BLE001
        c["read"] = {"ok": False, "exc": proj.pexc(e)["exc"], "msg": proj.cps(str(e)[:120])}
    # fields absent from the JSON text take their schema defaults: delete the defaulted top-level keys from text and datum alike
    if defaulted and all(isinstance(d, dict) for d in docs) and all(isinstance(r, dict) for r in records):
        dropped_docs = [{k: v for k, v in d.items() if k not in defaulted} for d in docs]
        c["dropped"] = [proj.pv({k: v for k, v in r.items() if k not in defaulted}) for r in records]
        try:
            t2 = "\n".join(json.dumps(d) for d in dropped_docs)
            c["readdrop"] = {"ok": True, "recs": [proj.pv(r) for r in json_reader(io.StringIO(t2), raw)]}
        except Exception as e:  # noqa: BLE001
            c["readdrop"] = {"ok": False, "exc": proj.pexc(e)["exc"], "msg": proj.cps(str(e)[:120])}
    return c


def contains_record(t, g, top=True):
    """Defaults whose decoded representation is not pinned: a record anywhere, or a union below the top level (the default of a nested union
    is spelled untagged in the schema, the JSON decoder wants it tagged)."""
    t = g.resolve(t)
    k = t["k"]
    if k == "record":
        return True
    if k == "array":
        return contains_record(t["items"], g, False)
    if k == "map":
        return contains_record(t["values"], g, False)
    if k == "union":
        return (not top) or any(contains_record(b, g, False) for b in t["br"])
    return False


def features(ir, g):
    """Structural features of a schema, for known-finding signatures and non-triviality."""
    from . import p_resolve
    f = {"empty_record": False, "recursive": False, "map": False, "union": False, "bytes": False, "named_reuse": False}
    for _, _, n in p_resolve.positions(ir):
        k = n["k"]
        if k == "record" and not n["fields"]:
            f["empty_record"] = True
        if k == "ref":
            f["named_reuse"] = True
            if n["full"] in g.open_seen.get(id(n), ()):  # never true; recursion detected below
                f["recursive"] = True
        if k == "map":
            f["map"] = True
        if k == "union":
            f["union"] = True
        if k == "fixed" or (k == "prim" and n["name"] == "bytes"):
            f["bytes"] = True

    def rec(t, stack):
        if t["k"] == "ref":
            return t["full"] in stack
        if t["k"] == "record":
            return any(rec(x["type"], stack + [t["full"]]) for x in t["fields"])
        if t["k"] == "array":
            return rec(t["items"], stack)
        if t["k"] == "map":
            return rec(t["values"], stack)
        if t["k"] == "union":
            return any(rec(b, stack) for b in t["br"])
        return False
    f["recursive"] = rec(ir, [])
    return f


def run_c15(ctx, fa):
    rnd = ctx.sub_rnd("c15")
    n = 1600 if ctx.quick() else 12000
    cases = []
    tries = 0
    while len(cases) < n and tries < 6 * n:
        tries += 1
        g = gen.Gen(rnd, logical=False, max_depth=rnd.choice([1, 2, 2, 3]), big=False, recursive=rnd.random() < 0.5)
        g.json_safe = True
        g.open_seen = {}
        ir = g.schema(top=rnd.choice(["record"] * 5 + ["union", "array", "map", "enum", "fixed", "prim"]))
        raw = g.render(ir)
        try:
            nrec = rnd.choice([1, 1, 2, 3])
            if gen.count_nodes(ir) <= 4 and rnd.random() < 0.04:
                nrec = rnd.choice([256, 257, 300, 513])         # many records in one call (buffers inside the encoder)
            records = [g.datum(ir, hints=False) for _ in range(nrec)]
        except (gen.NoDatum, RecursionError):
            continue
        # record-typed defaults are left out: their decoded representation (e.g. untagged union values inside) is not pinned (DESIGN D.3)
        defaulted = [f["name"] for f in ir["fields"] if f["hasdef"] and not contains_record(f["type"], g)] if ir["k"] == "record" else []
        c = json_case(fa, "j%d" % len(cases), raw, records, wut=rnd.random() < 0.8, defaulted=defaulted)
        c["features"] = features(ir, g)
        c["nodes"] = gen.count_nodes(ir)
        cases.append(c)
    # directed: maps / arrays whose values are records that END in an optional record that ends in an optional record (pending actions of
    # several levels when the value closes)
    for i in range(12 if ctx.quick() else 120):
        addr = {"type": "record", "name": "Address", "fields": [{"name": "zip", "type": "string"}]}
        cust = {"type": "record", "name": "Customer", "fields": [{"name": "name", "type": "string"}, {"name": "address", "type": ["null", addr]}]}
        order = {"type": "record", "name": "Order", "fields": [{"name": "id", "type": "int"}, {"name": "customer", "type": ["null", cust]}]}
        raw = {"type": "map", "values": order} if rnd.random() < 0.6 else {"type": "array", "items": {"type": "map", "values": order}}

        def one():
            lvl = rnd.choice([0, 1, 2, 2])
            c_ = None if lvl == 0 else {"name": rnd.choice(["n", "é"]), "address": None if lvl == 1 else {"zip": rnd.choice(["", "123"])}}
            return {"id": rnd.randint(0, 9), "customer": c_}
        m = {k: one() for k in rnd.sample(["o1", "o2", "id", "é"], rnd.randint(1, 3))}
        recs = [m if raw["type"] == "map" else [m, {"x": one()}]]
        c = json_case(fa, "j%d" % len(cases), raw, recs, wut=True, defaulted=[])
        c["features"] = {"empty_record": False, "recursive": False, "map": True, "union": True, "bytes": False, "named_reuse": False}
        c["nodes"] = 6
        cases.append(c)
    ctx.rule = ("seeded schemas of every top-level kind (nested arrays/maps/unions/records, by-name references, recursive types, records without "
                "fields) x 1-3 conforming records x write_union_type; floats restricted to finite values, binary32-exact under float; the text written by "
                "json_writer is parsed with the standard json module and compared by TLC with AvroJson!JsonEnc; json_reader's result is compared with "
                "Norm (the binary decode) with numbers by value; defaulted top-level keys are deleted from text and datum alike; non-trivial = schema "
                "contains a union, map or bytes/fixed leaf")
    core.judge_cases(ctx, cases, "json", ("C15.",), nontrivial_fn=lambda c: c["features"]["union"] or c["features"]["map"] or c["features"]["bytes"],
                     sig_fn=sig_c15, describe=lambda c: "wut=%s feat=%s schema=%s" % (c["wut"], [k for k, v in c["features"].items() if v],
                                                                                      repr(proj.unpj(c["schema"]))[:160]))
    for c in cases[:3]:
        ctx.sample({"schema": proj.unpj(c["schema"]), "docs": [proj.unpj(d) for d in c.get("write", {}).get("docs", [])][:2]})


def sig_c15(c, clause):
    w = c.get("write", {})
    r = c.get("read", {})
    sig = dict(c["features"])
    sig["write_exc"] = (w.get("exc") or [""])[0] if not w.get("ok") else ""
    sig["write_msg"] = proj.uncps(w.get("msg", []))[:25] if not w.get("ok") else ""
    sig["read_exc"] = (r.get("exc") or [""])[0] if w.get("ok") and not r.get("ok") else ""
    return sig
