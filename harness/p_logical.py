"""C16: logical types over their whole domain (V direction)."""
import datetime
import decimal
import io
import json
import math
import uuid

from . import core, proj

D = decimal.Decimal


def logical_case(fa, cid, schema, datum):
    c = {"id": cid, "op": "logical", "schema": proj.pj(schema), "datum": proj.pv(datum)}
    fo = io.BytesIO()
    try:
        fa.schemaless_writer(fo, schema, datum)
        c["write"] = {"ok": True, "bytes": list(fo.getvalue())}
    except Exception as e:  # noqa: BLE001
        c["write"] = {"ok": False, "exc": proj.pexc(e)["exc"]}
        c["read"] = {"ok": False, "exc": ["NotWritten"]}
        return c
    try:
        v = fa.schemaless_reader(io.BytesIO(fo.getvalue()), schema)
        c["read"] = {"ok": True, "v": proj.pv(v)}
    except Exception as e:  # noqa: BLE001
        c["read"] = {"ok": False, "exc": proj.pexc(e)["exc"]}
    return c


def gen_values(rnd, n, thorough):
    """(schema, value) pairs, boundary heavy."""
    out = []
    DATE = {"type": "int", "logicalType": "date"}
    TMS = {"type": "int", "logicalType": "time-millis"}
    TUS = {"type": "long", "logicalType": "time-micros"}

    def ts(kind):
        return {"type": "long", "logicalType": kind}
    # dates: first/last day of months, extremes
    for y in [1, 2, 4, 100, 400, 1582, 1600, 1899, 1900, 1969, 1970, 1971, 2000, 2024, 2038, 2100, 9998, 9999] + [rnd.randint(1, 9999) for _ in range(n // 40)]:
        for m in (1, 2, 3, 12, rnd.randint(1, 12)):
            last = (datetime.date(y + (m == 12), (m % 12) + 1, 1) - datetime.timedelta(days=1)).day if not (y == 9999 and m == 12) else 31
            for d in (1, last):
                out.append((DATE, datetime.date(y, m, d)))
    # times
    for _ in range(n // 12):
        h, mi, s = rnd.choice([0, 23, rnd.randint(0, 23)]), rnd.choice([0, 59, rnd.randint(0, 59)]), rnd.choice([0, 59, rnd.randint(0, 59)])
        out.append((TMS, datetime.time(h, mi, s, rnd.choice([0, 1000, 999000, 999999, 1, 500, rnd.randint(0, 999999)]))))
        out.append((TUS, datetime.time(h, mi, s, rnd.choice([0, 1, 999999, rnd.randint(0, 999999)]))))
    # aware datetimes with offsets, before and after the epoch
    offs = [0, 0, 0, 1, -1, 60, -300, 330, 345, 765, -720, 840, 1439, -1439]
    for _ in range(n // 5):
        kind = rnd.choice(["timestamp-millis", "timestamp-micros"])
        y = rnd.choice([2, 3, 1000, 1899, 1969, 1969, 1970, 1970, 1971, 2000, 2038, 2262, 9998, rnd.randint(2, 9998)])
        us = rnd.choice([0, 1, 999, 1000, 500000, 999000, 999999, rnd.randint(0, 999999)])
        if kind.endswith("millis") and rnd.random() < 0.6:
            us = (us // 1000) * 1000
        base = datetime.datetime(y, rnd.randint(1, 12), rnd.randint(1, 28), rnd.choice([0, 23, rnd.randint(0, 23)]), rnd.randint(0, 59), rnd.randint(0, 59), us)
        if y in (1969, 1970) and rnd.random() < 0.5:
            base = datetime.datetime(1969, 12, 31, 23, 59, 59, us) if rnd.random() < 0.5 else datetime.datetime(1970, 1, 1, 0, 0, 0, us)
        tz = datetime.timezone(datetime.timedelta(minutes=rnd.choice(offs), seconds=rnd.choice([0, 0, 0, 30])))
        out.append((ts(kind), base.replace(tzinfo=tz)))
    # naive datetimes: local variants anywhere, timestamp variants (TZ=UTC) in the libc-safe range
    for _ in range(n // 6):
        kind = rnd.choice(["local-timestamp-millis", "local-timestamp-micros"])
        y = rnd.choice([1, 2, 1000, 1969, 1969, 1970, 1971, 2000, 9999, rnd.randint(1, 9999)])
        us = rnd.choice([0, 1, 1000, 500000, 999000, 999999, rnd.randint(0, 999999)])
        if kind.endswith("millis") and rnd.random() < 0.6:
            us = (us // 1000) * 1000
        out.append((ts(kind), datetime.datetime(y, rnd.randint(1, 12), rnd.randint(1, 28), rnd.randint(0, 23), rnd.randint(0, 59), rnd.randint(0, 59), us)))
        if rnd.random() < 0.4:
            k2 = rnd.choice(["timestamp-millis", "timestamp-micros"])
            us2 = rnd.choice([0, 1000, 999000]) if k2.endswith("millis") else rnd.randint(0, 999999)
            out.append((ts(k2), datetime.datetime(rnd.randint(1971, 2100), rnd.randint(1, 12), rnd.randint(1, 28), rnd.randint(0, 23), rnd.randint(0, 59), rnd.randint(0, 59), us2)))
    # uuids
    for _ in range(n // 25):
        out.append(({"type": "string", "logicalType": "uuid"}, uuid.UUID(int=rnd.choice([0, 2 ** 128 - 1, rnd.getrandbits(128)]))))
    # decimals: bytes and fixed, every kind of edge
    for _ in range(n // 3):
        fixed = rnd.random() < 0.5
        if fixed:
            size = rnd.choice([1, 1, 2, 3, 4, 5, 8, 10, 16, 17])
            maxp = int(math.floor(math.log10(2) * (8 * size - 1)))
            prec = rnd.choice([maxp, maxp, rnd.randint(1, maxp)])
        else:
            size = None
            prec = rnd.choice([1, 2, 3, 5, 9, 10, 18, 19, 20, 38, 40])
        scale = min(prec, rnd.choice([0, 0, 1, 2, prec, max(0, prec - 1), rnd.randint(0, prec)]))
        sch = {"type": "fixed", "name": "D", "size": size, "logicalType": "decimal", "precision": prec, "scale": scale} if fixed else \
              {"type": "bytes", "logicalType": "decimal", "precision": prec, "scale": scale}
        kind = rnd.choice(["fit", "fit", "fit", "zero", "negzero", "maxdigits", "toomany", "fraction", "posexp", "edgebytes", "nofit"])
        sign = rnd.choice([0, 1])
        if kind == "zero":
            val = D((0, (0,), rnd.choice([0, -scale])))
        elif kind == "negzero":
            val = D((1, (0,), rnd.choice([0, -scale])))
        elif kind == "maxdigits":
            val = D((sign, tuple(rnd.choice([9, 9, rnd.randint(1, 9)]) for _ in range(prec)), -scale))
        elif kind == "toomany":
            val = D((sign, tuple([1] + [rnd.randint(0, 9) for _ in range(prec)]), -scale))
        elif kind == "fraction":
            val = D((sign, (rnd.randint(1, 9),), -scale - 1))
        elif kind == "posexp":
            nd = rnd.randint(1, max(1, prec - scale - 1)) if prec - scale > 1 else 1
            e = rnd.randint(0, max(0, prec - scale - nd))
            val = D((sign, tuple([rnd.randint(1, 9)] + [rnd.randint(0, 9) for _ in range(nd - 1)]), e))
        elif kind == "edgebytes":
            k = rnd.choice([7, 8, 15, 16, 23, 24, 31, 32, 63, 64])
            u = rnd.choice([2 ** k - 1, 2 ** k, -(2 ** k), -(2 ** k) - 1, -(2 ** k) + 1])
            val = D(u).scaleb(-scale)
        elif kind == "nofit" and fixed:
            u = rnd.choice([2 ** (8 * size - 1), -(2 ** (8 * size - 1)) - 1, 2 ** (8 * size - 1) - 1, -(2 ** (8 * size - 1)), 2 ** (8 * size), -(2 ** (8 * size))])
            val = D(u).scaleb(-scale)
        else:
            nd = rnd.randint(1, prec)
            val = D((sign, tuple([rnd.randint(1, 9)] + [rnd.randint(0, 9) for _ in range(nd - 1)]), -rnd.randint(0, scale)))
        out.append((sch, val))
        if rnd.random() < 0.03:
            out.append((sch, D(rnd.choice(["NaN", "Infinity", "-Infinity"]))))
    rnd.shuffle(out)
    return out[:n]


def describe(c):
    return "schema=%s datum=%r" % (proj.unpj(c["schema"]), proj.unpv(c["datum"]) if c["datum"]["p"] != "decimal_special" else "special")


def sig_c16(c, clause):
    s = proj.unpj(c["schema"])
    d = c["datum"]
    sig = {"lt": s.get("logicalType"), "type": s.get("type")}
    if d["p"] == "decimal":
        sig["negative"] = bool(d["sign"])
        sig["zero"] = all(x == 0 for x in d["digits"])
    return sig


def run_c16(ctx, fa):
    from . import mcheck
    rnd = ctx.sub_rnd("c16")
    # M: the calendar on a window of days (quick: around the epoch and both ends; thorough: every day from 0001-01-01 to 9999-12-31)
    last = 2932896 + 719162
    windows = [(0, 800), (719162 - 400, 719162 + 1500), (last - 800, last)] if ctx.quick() else [(0, last)]
    for a, b in windows:
        mcheck.model_check(ctx, "MC_Logical", {"FromOff": a, "ToOff": b}, ["InvInverse", "InvValid", "InvSuccessor", "InvTwos", "InvEpoch"], "days%d" % a)
    n = 1500 if ctx.quick() else 20000
    vals = gen_values(rnd, n, not ctx.quick())
    cases = [logical_case(fa, "l%d" % i, s, v) for i, (s, v) in enumerate(vals)]
    # aware datetimes mean the same instant whatever the zone of the process: the same kind of cases once more with the process in a zone
    # three hours off UTC; the local-timestamp types (wall-clock values, no zone involved) come along; naive values under the
    # timestamp types are left out there (their meaning is the local zone's)
    import os
    import time
    aware = [(s_, v) for s_, v in gen_values(ctx.sub_rnd("c16tz"), n // 2, False)
             if isinstance(v, datetime.datetime) and (v.tzinfo is not None or "local" in str(s_.get("logicalType", "")))]
    old_tz = os.environ.get("TZ")
    try:
        os.environ["TZ"] = "XST-3"
        time.tzset()
        cases += [logical_case(fa, "z%d" % i, s_, v) for i, (s_, v) in enumerate(aware)]
    finally:
        if old_tz is None:
            os.environ.pop("TZ", None)
        else:
            os.environ["TZ"] = old_tz
        time.tzset()
    ctx.extra["aware_datetimes_under_non_utc_process_zone"] = len(aware)
    ctx.rule = ("boundary-heavy logical values: first/last day of months across years 1..9999; times of day with ms/us edges; aware datetimes with "
                "offsets -23:59..+23:59(+30s) before and after the epoch; naive datetimes for the local variants (and for timestamp types with TZ=UTC in "
                "1971..2100); UUIDs; decimals for bytes and fixed (sizes 1..17, precision up to the size's maximum, all scales) incl. -0, zero, all-9 digits, "
                "one digit too many, one fractional digit too many, positive exponents, two's-complement length edges, values not fitting the size, NaN/Inf")
    core.judge_cases(ctx, cases, "logical", ("C16.",), describe=describe, sig_fn=sig_c16)
    # logical values inside unions whose earlier branches are the plain types a sloppy check could take them for
    from . import p_binary
    ucases = []
    urnd = ctx.sub_rnd("c16u")
    for i in range(60 if ctx.quick() else 600):
        kind = urnd.choice(["dec", "dec", "date", "uuid", "ts", "dec2"])
        if kind == "dec2":
            # a fixed decimal too small for the value ahead of a bytes decimal that holds it
            schema = (["null"] if urnd.random() < 0.5 else []) + [
                {"type": "fixed", "name": "Small", "size": 2, "logicalType": "decimal", "precision": 4, "scale": 2},
                {"type": "bytes", "logicalType": "decimal", "precision": 12, "scale": 2}]
            val = urnd.choice([decimal.Decimal("-400"), decimal.Decimal("-4E+2"), decimal.Decimal("400"), decimal.Decimal("-327.69"),
                               decimal.Decimal("327.68"), decimal.Decimal("-12345678.91")])
            uc = p_binary.sl_roundtrip_case(fa, "u%d" % i, schema, [val], tuples=True, parsed_form=urnd.random() < 0.4)
            uc["c16"] = True
            ucases.append(uc)
            continue
        if kind == "dec":
            prec = urnd.choice([4, 9, 18, 30])
            scale = urnd.choice([0, 2, prec // 2])
            lt = {"type": "bytes", "logicalType": "decimal", "precision": prec, "scale": scale} if urnd.random() < 0.6 else \
                {"type": "fixed", "name": "Dz", "size": 16, "logicalType": "decimal", "precision": prec, "scale": scale}
            digits = urnd.randint(1, prec)
            val = decimal.Decimal((urnd.choice([0, 1]), tuple(urnd.randint(1 if k == 0 else 0, 9) for k in range(digits)), -scale))
            plain = [urnd.choice(["double", "float"])] + (["bytes"] if urnd.random() < 0.3 and lt["type"] != "bytes" else [])
        elif kind == "date":
            lt, val, plain = {"type": "int", "logicalType": "date"}, datetime.date(urnd.randint(1, 9999), urnd.randint(1, 12), urnd.randint(1, 28)), ["string", "long"]
        elif kind == "uuid":
            lt, val, plain = {"type": "string", "logicalType": "uuid"}, uuid.UUID(int=urnd.getrandbits(128)), ["bytes", "int"]
        else:
            lt = {"type": "long", "logicalType": urnd.choice(["timestamp-micros", "timestamp-millis"])}
            val = datetime.datetime(urnd.randint(1971, 2100), urnd.randint(1, 12), urnd.randint(1, 28), urnd.randint(0, 23), 0, 0, 0, tzinfo=datetime.timezone.utc)
            plain = ["double", "string"]
        schema = (["null"] if urnd.random() < 0.5 else []) + plain + [lt]
        w = urnd.random()
        if w < 0.2:
            schema, val = {"type": "map", "values": lt}, {"k": val, "é": val}          # the logical type as the values of a map
        elif w < 0.35:
            schema, val = {"type": "array", "items": lt}, [val, val]
        uc = p_binary.sl_roundtrip_case(fa, "u%d" % i, schema, [val], tuples=True, parsed_form=urnd.random() < 0.4)
        uc["c16"] = True
        ucases.append(uc)
    core.judge_cases(ctx, ucases, "logical-in-union", ("C16.",), describe=lambda c: "schema=%s datum=%s" % (
        json.dumps(proj.unpj(c["schema"]))[:160], repr(proj.unpv(c["data"][0]))[:60] if c["data"] else ""))
    by = {}
    for c in cases:
        k = proj.unpj(c["schema"]).get("logicalType")
        by[k] = by.get(k, 0) + 1
    ctx.extra["values_by_logical_type"] = by
    ctx.extra["rejected_by_writer"] = sum(1 for c in cases if not c["write"]["ok"])
    for c in cases[:4]:
        ctx.sample({"schema": proj.unpj(c["schema"]), "datum": repr(proj.unpv(c["datum"])) if c["datum"]["p"] != "decimal_special" else "special",
                    "stored": bytes(c["write"]["bytes"]).hex() if c["write"]["ok"] else c["write"]["exc"][0]})
