"""Seeded generators of Avro schemas (raw JSON) and Python data.

The generator has its own idea of what conforms; TLC re-checks every manufactured input against the
spec (clauses H.*), so a generator bug surfaces as a machinery failure (exit 2), never as a verdict.
IR nodes (dicts):  prim{name,lt?,prec?,scale?} record{full,ns,fields[{name,type,hasdef,default,aliases}],aliases}
                   enum{full,ns,syms,hasdef,default} fixed{full,ns,size,lt?..} array{items} map{values} union{br} ref{full}
"""
import array
import datetime
import types
import decimal
import math
import struct
import uuid

PRIMS = ["null", "boolean", "int", "long", "float", "double", "bytes", "string"]
NS_POOL = ["", "", "a", "a.b", "x.y.z", "a.c"]
FIELD_NAMES = ["a", "b", "c", "id", "name", "value", "next", "items", "x1", "_u", "type", "in"]
SYMS = ["A", "B", "C", "RED", "green", "_x", "S9"]

INT_POOL = [0, 1, -1, 2, -2, 63, 64, -64, -65, 127, 128, 255, 256, 8191, 8192, -8192, -8193, 1048575, 1048576, -1048576, -1048577,
            134217727, 134217728, -134217728, -134217729, 2 ** 31 - 1, -2 ** 31]
LONG_POOL = INT_POOL + [2 ** 31, -2 ** 31 - 1, 2 ** 34 - 1, 2 ** 34, -2 ** 34, -2 ** 34 - 1, 2 ** 41 - 1, 2 ** 41, -2 ** 41 - 1, 2 ** 48 - 1, 2 ** 48,
                        -2 ** 48 - 1, 2 ** 55 - 1, 2 ** 55, -2 ** 55, -2 ** 55 - 1, 2 ** 56, 2 ** 62 - 1, 2 ** 62, -2 ** 62, -2 ** 62 - 1,
                        2 ** 63 - 1, -2 ** 63, 2 ** 53, 2 ** 53 + 1]
F32 = lambda x: struct.unpack("<f", struct.pack("<f", x))[0]  # noqa: E731 (generator side only)
DOUBLE_POOL = [0.0, -0.0, 1.0, -1.0, 0.5, 1.5, 0.1, -2.75, 5e-324, 2.2250738585072014e-308, 1.7976931348623157e308, float("inf"),
               float("-inf"), float("nan"), 3.141592653589793, 1e100, -1e-100, 123456789.125, 2.0 ** 53, 1 / 3]
FLOAT_POOL = [0.0, -0.0, 1.0, -1.0, 0.5, 1.5, 0.1, 1e-45, 1.1754943508222875e-38, 3.4028234663852886e38, float("inf"), float("-inf"),
              float("nan"), 16777217.0, 16777219.0, 1e-40, 3.4028235677973362e38, 0.7e-45, 0.3, 1 / 3, 2.5e-45]
STR_POOL = ["", "a", "abc", "é", "€", "😀", "aé€\U0001F600", "\u0000", "\x7f\u0080", "߿ࠀ", "￿\U00010000", "\U0010ffff",
            "x" * 63, "y" * 64, "z" * 65, "key", "-type", "ключ", "퟿", " sp ace ", "\"q\"\\"]


class Gen:
    def __init__(self, rnd, logical=False, max_depth=3, big=True, aliases=False, ns=True, recursive=True, defaults=True):
        self.r = rnd
        self.logical = logical
        self.max_depth = max_depth
        self.big = big
        self.aliases = aliases
        self.use_ns = ns
        self.recursive = recursive
        self.defaults = defaults
        self.defs = {}
        self.open = []
        self.counter = 0
        self.dict_prims_with_defaults = False
        self.json_safe = False
        self._forced = None
        self._reserved = None
        self._kw_used = set()
        self.letter_suffixes = False   # type names ending in letters (the schema-repository checks)
        self.typed_arrays = False      # array.array data now and then (writing / validation checks)
        self.mapping_views = False     # maps now and then offered as read-only mapping views (validation / writing checks only)
        self.unknown_logical = True    # now and then an annotation no implementation knows ("x-custom"): to be ignored
        self.overlap_bias = 0.07       # probability that a union is one of records with nested field sets
        self.big_unions = True         # now and then a union of 66-80 branches
        self.error_records = True      # now and then a record is declared with "type": "error" (same thing everywhere but in the JSON grammar)
        self.empty_enums = False       # enums without symbols (no datum conforms): only where no data are needed

    # ------------------------------------------------------------------ schemas (IR)
    def fresh(self, prefix):
        self.counter += 1
        # names do not always end in a digit (file names are derived from them by the loader)
        return "%s%d%s" % (prefix, self.counter, self.r.choice(["", "", "", "s", "a", "vc", "avsc"]) if self.letter_suffixes else "")

    def fresh_named(self, prefix, tns):
        """A simple name for a new named type in namespace tns: now and then the simple name of an existing type of another namespace."""
        if self._forced:
            n = self._forced[1]
            self._forced = None
            return n
        if self.letter_suffixes and tns != "" and self.r.random() < 0.06:
            # a type may be called like a keyword of the schema language - inside a namespace (in the null namespace the bare name IS
            # the keyword for the library: DESIGN 11.4b)
            kw = [k for k in ("request", "error", "record", "enum", "fixed", "map", "array", "union") if k not in self._kw_used]
            if kw:
                k = self.r.choice(kw)
                self._kw_used.add(k)
                return k
        if self.use_ns and self.r.random() < 0.12:
            cands = [d["full"].rsplit(".", 1)[-1] for d in self.defs.values() if d["ns"] != tns]
            cands = [s for s in cands if self.full(tns, s) not in self.defs and not s.startswith("Al") and s != self._reserved]
            if cands:
                return self.r.choice(cands)
        return self.fresh(prefix)

    def pick_ns(self, enclosing):
        if not self.use_ns:
            return ""
        r = self.r.random()
        if r < 0.55:
            return enclosing
        if enclosing == "":
            return self.r.choice(NS_POOL)
        if r < 0.68:
            return ""      # explicit null namespace inside a namespaced type (can then only be used inline / from null-namespace contexts)
        return self.r.choice([n for n in NS_POOL if n != ""])

    def schema(self, top=None):
        """A fresh top-level schema IR."""
        self.defs = {}
        self.open = []
        self.counter = 0
        self._reserved = None
        self._kw_used = set()
        kinds = ["record"] * 5 + ["union", "array", "map", "enum", "fixed", "prim"]
        k = top or self.r.choice(kinds)
        if k == "record" and self.use_ns and self.r.random() < 0.05:
            return self.shadow_schema()
        if k == "record" and self.defaults and self.r.random() < 0.06:
            return self.defaults_schema()
        if k in ("array", "map") and self.use_ns and self.r.random() < 0.15:
            inner = self.shadow_schema()          # not a record at the top: a parsed form of it carries no marker and is parsed again
            return {"k": "array", "items": inner} if k == "array" else {"k": "map", "values": inner}
        return self.typ(self.max_depth, "", force=k, under_union=False, safe_rec=False)

    def shadow_schema(self):
        """Two types with one simple name, one in the null namespace and one in a namespace, and references to the latter from
        inside that namespace (a bare name there means the namespaced type, whatever the null namespace holds)."""
        r = self.r
        ns = r.choice([n for n in NS_POOL if n])
        simple = "N%d" % r.randint(1, 9)
        self._reserved = simple          # nobody else takes this simple name

        def named(tns):
            self._forced = (tns, simple)
            return self.typ(1, tns, force=r.choice(["enum", "fixed", "record"]))

        def rec(full, tns):
            d = {"k": "record", "full": full, "ns": tns, "fields": [], "aliases": []}
            self.defs[full] = d
            self.open.append(full)         # never closed: the frame records are not referred to
            return d

        def fld(name, t):
            return {"name": name, "type": t, "hasdef": False, "default": None, "aliases": []}

        def use(full):
            t = {"k": "ref", "full": full}
            w = r.random()
            if w < 0.2:
                return {"k": "array", "items": t}
            if w < 0.4:
                return {"k": "union", "br": [{"k": "prim", "name": "null"}, t]}
            return t

        outer = rec("Outer", "")
        inner = None
        order = r.choice(["null-first", "ns-first", "nested"])
        if order == "nested":
            # the null-namespace type is declared (with "namespace": "") INSIDE the namespaced record, after its namesake
            inner = rec(self.full(ns, "Inner"), ns)
            p_ = named(ns)
            inner["fields"].append(fld("p", p_))
            x = named("")
            inner["fields"].append(fld("x", x))
            inner["fields"].append(fld("q", use(p_["full"])))
            outer["fields"].append(fld("y", inner))
            if r.random() < 0.6:
                outer["fields"].append(fld("w", use(x["full"])))
            return outer
        if order == "null-first":
            x = named("")
            outer["fields"].append(fld("x", x))
        inner = rec(self.full(ns, "Inner"), ns)
        p_ = named(ns)
        inner["fields"].append(fld("p", p_))
        outer["fields"].append(fld("y", inner))
        if order == "ns-first":
            x = named("")
            outer["fields"].append(fld("x", x))
            # the rest of Inner is rendered before x is defined, so add a second namespaced record after it
            inner2 = rec(self.full(ns, "Inner2"), ns)
            inner2["fields"].append(fld("q", use(p_["full"])))
            outer["fields"].append(fld("y2", inner2))
        else:
            inner["fields"].append(fld("q", use(p_["full"])))
        if r.random() < 0.5:
            outer["fields"].append(fld("w", use(x["full"])))
        if r.random() < 0.6:
            # both in one union: they differ in namespace only
            br = [{"k": "ref", "full": p_["full"]}, {"k": "ref", "full": x["full"]}]
            if r.random() < 0.5:
                br.reverse()
            if r.random() < 0.5:
                br.insert(r.randint(0, 2), {"k": "prim", "name": "null"})
            outer["fields"].append(fld("u", {"k": "union", "br": br}))
        return outer

    def defaults_schema(self):
        """A record whose defaults are easy to get wrong: several by-name references to one enum with different defaults, and
        defaults that are nested non-empty containers."""
        r = self.r
        ns = self.pick_ns("")
        d = {"k": "record", "full": self.full(ns, self.fresh("D")), "ns": ns, "fields": [], "aliases": []}
        self.defs[d["full"]] = d
        self.open.append(d["full"])

        def fld(name, t, hasdef=False, default=None):
            return {"name": name, "type": t, "hasdef": hasdef, "default": default, "aliases": []}
        self._forced = (ns, self.fresh("E"))
        e = self.typ(0, ns, force="enum")
        while len(e["syms"]) < 3:
            e["syms"].append([x for x in SYMS if x not in e["syms"]][0])
        d["fields"].append(fld("t0", e, r.random() < 0.5, e["syms"][0]))
        syms = list(e["syms"])
        r.shuffle(syms)
        slots = ["t%d" % (i + 1) for i in range(r.choice([2, 2, 3]))] + ["nest"] + r.sample(["a", "b", "c", "id"], r.choice([0, 1, 2]))
        r.shuffle(slots)            # fields are built in their final order: a reference never precedes the definition
        for sl in slots:
            if sl.startswith("t"):
                d["fields"].append(fld(sl, {"k": "ref", "full": e["full"]}, r.random() < 0.85, syms[int(sl[1:]) - 1]))
            elif sl == "nest":
                leaf = r.choice(["int", "long", "string", "double", "boolean"])
                lv = {"int": [1, -2, 3], "long": [2 ** 40, 0, -1], "string": ["x", "é", ""], "double": [1.5, -2.0, 0.25],
                      "boolean": [True, False, True]}[leaf]
                lt = {"k": "prim", "name": leaf}
                shape = r.choice(["aa", "ma", "am", "mm", "aaa"])
                if shape == "aa":
                    t, dv = {"k": "array", "items": {"k": "array", "items": lt}}, [[lv[0], lv[1]], [lv[2]]]
                elif shape == "ma":
                    t, dv = {"k": "map", "values": {"k": "array", "items": lt}}, {"k1": [lv[0]], "é": [lv[1], lv[2]]}
                elif shape == "am":
                    t, dv = {"k": "array", "items": {"k": "map", "values": lt}}, [{"k1": lv[0]}, {"k2": lv[1], "k1": lv[2]}]
                elif shape == "mm":
                    t, dv = {"k": "map", "values": {"k": "map", "values": lt}}, {"o": {"i": lv[0], "j": lv[1]}}
                else:
                    t, dv = {"k": "array", "items": {"k": "array", "items": {"k": "array", "items": lt}}}, [[[lv[0]], [lv[1], lv[2]]]]
                if r.random() < 0.4:
                    t = {"k": "union", "br": [t, {"k": "prim", "name": "null"}]}      # the default belongs to the first branch
                d["fields"].append(fld("nest", t, True, dv))
            else:
                d["fields"].append(fld(sl, self.typ(1, ns)))
        self.open.pop()
        return d

    def typ(self, depth, ns, force=None, under_union=False, safe_rec=False):
        r = self.r
        if force:
            k = force
        else:
            opts = ["prim"] * 6 + ["enum", "fixed"]
            if depth > 0:
                opts += ["record"] * 2 + ["array", "map"]
                if not under_union:
                    opts += ["union"] * 2
            refs = self.refable(ns, safe_rec)
            if refs:
                opts += ["ref"] * 2
            k = r.choice(opts)
        if k == "prim":
            return self.prim()
        if k == "ref":
            refs = self.refable(ns, safe_rec)
            return {"k": "ref", "full": r.choice(refs)}
        if k == "enum":
            tns = self._forced[0] if self._forced else self.pick_ns(ns)
            full = self.full(tns, self.fresh_named("E", tns))
            syms = r.sample(SYMS, 0 if (self.empty_enums and r.random() < 0.06) else r.randint(1, 4))
            d = {"k": "enum", "full": full, "ns": tns, "syms": syms, "hasdef": bool(syms) and r.random() < 0.3, "aliases": self.mk_aliases()}
            d["default"] = r.choice(syms) if syms else None
            self.defs[full] = d
            return d
        if k == "fixed":
            tns = self._forced[0] if self._forced else self.pick_ns(ns)
            full = self.full(tns, self.fresh_named("F", tns))
            d = {"k": "fixed", "full": full, "ns": tns, "size": r.choice([0, 1, 2, 3, 16]), "aliases": self.mk_aliases()}
            if self.logical and r.random() < 0.4 and d["size"] > 0:
                self.add_decimal(d, d["size"])
            self.defs[full] = d
            return d
        if k == "array":
            return {"k": "array", "items": self.typ(depth - 1, ns, safe_rec=True)}
        if k == "map":
            return {"k": "map", "values": self.typ(depth - 1, ns, safe_rec=True)}
        if k == "union":
            return self.union(depth, ns)
        if k == "record":
            tns = self._forced[0] if self._forced else self.pick_ns(ns)
            full = self.full(tns, self.fresh_named("R", tns))
            d = {"k": "record", "full": full, "ns": tns, "fields": [], "aliases": self.mk_aliases()}
            if self.error_records and not self.json_safe and r.random() < 0.12:
                d["error"] = True
            self.defs[full] = d
            self.open.append(full)
            nf = r.choice([0, 1, 1, 2, 2, 3, 4]) if depth > 0 else r.choice([0, 1, 2])
            names = r.sample(FIELD_NAMES, nf)
            for fn in names:
                if self.defaults and depth > 0 and r.random() < 0.12:
                    # the optional-field idiom: ["null", X] with "default": null
                    x = self.typ(depth - 1, tns, under_union=True)
                    if not (x["k"] == "prim" and x["name"] == "null") and x["k"] != "union":
                        ft = {"k": "union", "br": [{"k": "prim", "name": "null"}, x]}
                        d["fields"].append({"name": fn, "type": ft, "hasdef": True, "default": None, "aliases": self.mk_aliases()})
                        continue
                if self.defaults and depth > 0 and r.random() < 0.06:
                    # nullable with a non-null default: [X, "null"], "default": <an X> (an explicit None is then a value of its own)
                    x = self.typ(depth - 1, tns, under_union=True)
                    ok, dv = self.default_for(x) if x["k"] != "union" else (False, None)
                    if ok and dv is not None:
                        ft = {"k": "union", "br": [x, {"k": "prim", "name": "null"}]}
                        d["fields"].append({"name": fn, "type": ft, "hasdef": True, "default": dv, "aliases": self.mk_aliases()})
                        continue
                    ft = x
                else:
                    ft = self.typ(depth - 1, tns)
                f = {"name": fn, "type": ft, "hasdef": False, "default": None, "aliases": self.mk_aliases()}
                if self.defaults and r.random() < 0.35:
                    ok, dv = self.default_for(ft)
                    if ok:
                        f["hasdef"] = True
                        f["default"] = dv
                d["fields"].append(f)
            self.open.pop()
            return d
        raise AssertionError(k)

    def mk_aliases(self):
        if not self.aliases or self.r.random() < 0.7:
            return []
        return [self.fresh("Al")]

    @staticmethod
    def full(ns, name):
        return ns + "." + name if ns else name

    def refable(self, ns, safe_rec):
        out = []
        for full, d in self.defs.items():
            tns = d["ns"]
            if tns == "" and ns != "":
                continue      # cannot be spelled from inside a namespace
            if full in self.open and not (safe_rec and self.recursive):
                continue
            out.append(full)
        return out

    def prim(self):
        r = self.r
        name = r.choice(PRIMS)
        d = {"k": "prim", "name": name}
        if self.logical and r.random() < 0.6:
            if name == "int":
                d["lt"] = r.choice(["date", "time-millis"])
            elif name == "long":
                d["lt"] = r.choice(["time-micros", "timestamp-millis", "timestamp-micros", "local-timestamp-millis", "local-timestamp-micros"])
            elif name == "string":
                d["lt"] = "uuid"
            elif name == "bytes":
                self.add_decimal(d, None)
        elif self.unknown_logical and name in ("int", "long", "string", "bytes", "double") and r.random() < 0.04:
            d["ult"] = r.choice(["x-custom", "varchar", "timestamp-nanos"])
        return d

    def add_decimal(self, d, size):
        r = self.r
        if size is None:
            prec = r.choice([1, 2, 5, 9, 18, 19, 38, 40])
        else:
            maxp = int(math.floor(math.log10(2) * (8 * size - 1)))
            if maxp < 1:
                return
            prec = r.randint(1, maxp)
        d["lt"] = "decimal"
        d["prec"] = prec
        d["scale"] = r.choice([0, 0, 1, 2, prec, prec]) if prec >= 2 else r.choice([0, 1, 1])
        d["scale"] = min(d["scale"], prec)

    def big_union(self, ns):
        """A union with 66-80 branches (the branch index needs two bytes from position 64 on): tiny enums and records that each accept
        one shape only, so the branch is determined by the datum."""
        r = self.r
        br = [{"k": "prim", "name": "null"}]
        for i in range(r.randint(65, 79)):
            if r.random() < 0.5:
                full = self.full(ns, self.fresh("Be"))
                d = {"k": "enum", "full": full, "ns": ns, "syms": ["Z%d" % i], "hasdef": False, "default": "Z%d" % i, "aliases": []}
            else:
                full = self.full(ns, self.fresh("Br"))
                d = {"k": "record", "full": full, "ns": ns, "aliases": [],
                     "fields": [{"name": "f%d" % i, "type": {"k": "prim", "name": "long"}, "hasdef": False, "default": None, "aliases": []}]}
            self.defs[full] = d
            br.append(d)
        return {"k": "union", "br": br}

    def overlap_union(self, ns):
        """A union of 2-3 records with nested field sets ({a,b} < {a,b,c} < ...): a datum of a later branch also conforms to the earlier
        ones, so the branch is decided by the number of shared field names."""
        r = self.r
        names = r.sample(["a", "b", "c", "id", "x1", "value"], 4)
        types = {n: {"k": "prim", "name": r.choice(["int", "long", "string", "double", "boolean"])} for n in names}
        br = []
        as_error = self.error_records and not self.json_safe and r.random() < 0.5
        for k in range(r.choice([2, 3])):
            full = self.full(ns, self.fresh("Ov"))
            fields = [{"name": n, "type": dict(types[n]), "hasdef": False, "default": None, "aliases": []} for n in names[:2 + k]]
            if r.random() < 0.3:
                r.shuffle(fields)
            d = {"k": "record", "full": full, "ns": ns, "aliases": [], "fields": fields}
            if as_error:
                d["error"] = True
            self.defs[full] = d
            br.append(d)
        if r.random() < 0.4:
            br.reverse()
        if r.random() < 0.5:
            br.insert(r.randint(0, len(br)), {"k": "prim", "name": "null"})
        return {"k": "union", "br": br}

    def union(self, depth, ns):
        r = self.r
        if self.big_unions and r.random() < 0.04:
            return self.big_union(ns)
        if depth > 0 and r.random() < self.overlap_bias:
            return self.overlap_union(ns)
        if self.logical and r.random() < 0.08:
            # a floating branch ahead of a decimal: a Decimal is not a float
            dec = {"k": "prim", "name": "bytes"}
            self.add_decimal(dec, None)
            br = [{"k": "prim", "name": r.choice(["double", "float"])}, dec]
            if r.random() < 0.5:
                br.insert(0, {"k": "prim", "name": "null"})
            return {"k": "union", "br": br}
        if r.random() < 0.13:
            # primitives one of which promotes to an earlier one: the branch of the value's own type comes after a promotion target
            chain = r.choice([["bytes", "string"], ["string", "bytes"], ["bytes", "string"], ["string", "bytes"], ["double", "int"], ["long", "int"], ["double", "float", "long", "int"],
                              ["float", "long"], ["double", "long"], ["double", "float"],
                              # ... and the other way round: the first conforming branch is decided at the range boundaries
                              ["int", "long"], ["int", "double"], ["float", "double"], ["float", "double"], ["float", "double"], ["float", "double"],
                              ["int", "long", "double"], ["long", "double"],
                              ["int", "long"], ["int", "long"], ["int", "boolean", "long"], ["int", "string", "long"]])
            br = [{"k": "prim", "name": x} for x in chain]
            if r.random() < 0.5:
                br.insert(r.randint(0, len(br)), {"k": "prim", "name": "null"})
            return {"k": "union", "br": br}
        n = r.choice([1, 2, 2, 2, 3, 3, 4, 5])
        br = []
        used = set()
        tries = 0
        while len(br) < n and tries < 30:
            tries += 1
            snapshot = dict(self.defs)
            t = self.typ(depth - 1, ns, under_union=True, safe_rec=True)
            key = self.union_key(t)
            if key in used:
                self.defs = snapshot          # the discarded branch's definitions never appear in the schema
                continue
            used.add(key)
            br.append(t)
        if r.random() < 0.5 and "prim:null" not in used:
            br.insert(r.randint(0, len(br)), {"k": "prim", "name": "null"})
        decs = [full for full, d in self.defs.items() if d["k"] == "fixed" and d.get("lt") == "decimal" and "named:" + full not in used
                and not (d["ns"] == "" and ns != "")]
        if decs and r.random() < 0.6:
            br.append({"k": "ref", "full": r.choice(decs)})     # a fixed decimal referred to by name: a Decimal conforms to it all the same
            used.add("named:" + br[-1]["full"])
        errs = [full for full, d in self.defs.items() if d.get("error") and full not in self.open and "named:" + full not in used
                and not (d["ns"] == "" and ns != "")]
        if errs and r.random() < 0.8:
            br.append({"k": "ref", "full": r.choice(errs)})     # an "error" record referred to by name (after everything defined here)
        return {"k": "union", "br": br}

    def union_key(self, t):
        if t["k"] == "prim":
            return "prim:" + t["name"]
        if t["k"] in ("array", "map"):
            return t["k"]
        if t["k"] == "ref":
            return "named:" + t["full"]
        return "named:" + t["full"]

    def resolve(self, t):
        return self.defs[t["full"]] if t["k"] == "ref" else t

    def default_for(self, t, depth=0):
        """(ok, json default) for a field of type t. For unions the default matches the first branch."""
        r = self.r
        t0 = t
        t = self.resolve(t)
        k = t["k"]
        if k == "prim":
            n = t["name"]
            if t.get("lt"):
                return False, None
            if n == "null":
                return True, None
            if n == "boolean":
                return True, r.choice([True, False])
            if n == "int":
                return True, r.choice(INT_POOL)
            if n == "long":
                return True, r.choice(LONG_POOL)
            if n in ("float", "double"):
                return True, r.choice([0, 1, -3, 1.5, 0.25, -2.0, 100])
            if n == "string":
                return True, r.choice(["", "dflt", "é😀"])
            return False, None      # bytes: the Python representation of the default is not pinned by any property
        if k == "enum":
            if not t["syms"]:
                return False, None
            return True, r.choice(t["syms"])
        if k == "fixed":
            return False, None
        if k == "array":
            out = []
            for _ in range(r.choice([0, 0, 1, 2])):
                ok, dv = self.default_for(t["items"], depth + 1)
                if not ok:
                    return False, None
                out.append(dv)
            return True, out
        if k == "map":
            out = {}
            for key in r.sample(["k1", "k2", "é"], r.choice([0, 0, 1, 2])):
                ok, dv = self.default_for(t["values"], depth + 1)
                if not ok:
                    return False, None
                out[key] = dv
            return True, out
        if k == "union":
            if not t["br"]:
                return False, None
            return self.default_for(t["br"][0], depth + 1)
        if k == "record":
            if t0["k"] == "ref" and t["full"] in self.open:
                return False, None
            if depth > 2:
                return False, None
            out = {}
            for f in t["fields"]:
                if f["hasdef"] and r.random() < 0.5:
                    continue
                ok, dv = self.default_for(f["type"], depth + 1)
                if not ok:
                    return False, None
                out[f["name"]] = dv
            return True, out
        return False, None

    # ------------------------------------------------------------------ rendering to raw JSON
    def render(self, t, ns="", cosmetic=None, plain=False, in_union=False):
        """IR -> raw schema (Python JSON). Name spelling (dotted vs namespace attribute vs inherited) is varied."""
        r = self.r
        k = t["k"]
        if k == "prim":
            if "lt" in t:
                d = {"type": t["name"], "logicalType": t["lt"]}
                if t["lt"] == "decimal":
                    d["precision"] = t["prec"]
                    if t["scale"] or r.random() < 0.5:
                        d["scale"] = t["scale"]
                return d
            if t.get("ult"):
                return {"type": t["name"], "logicalType": t["ult"], "maxLength": 7}
            return t["name"] if (plain or r.random() < ((0.5 if t["name"] in ("double", "null") else 0.65) if in_union else 0.85)) else {"type": t["name"]}
        if k == "ref":
            tns = self.defs[t["full"]]["ns"]
            if tns == ns and tns != "" and r.random() < 0.6:
                return t["full"].rsplit(".", 1)[1]
            return t["full"]
        if k == "array":
            return {"type": "array", "items": self.render(t["items"], ns)}
        if k == "map":
            return {"type": "map", "values": self.render(t["values"], ns)}
        if k == "union":
            return [self.render(b, ns, in_union=True) for b in t["br"]]
        # named types
        d = {"type": "error" if t.get("error") else k}
        tns = t["ns"]
        simple = t["full"].rsplit(".", 1)[-1]
        style = r.random()
        if tns == ns and style < 0.5:
            d["name"] = simple                      # inherited
        elif tns != "" and style < 0.75:
            d["name"] = t["full"]                   # dotted
            if r.random() < 0.3:
                d["namespace"] = "ignored.ns"       # a dotted name wins over the attribute
        else:
            d["name"] = simple
            d["namespace"] = tns                    # explicit ("" = null namespace)
        if t.get("aliases"):
            d["aliases"] = list(t["aliases"])
        if k == "enum":
            d["symbols"] = list(t["syms"])
            if t["hasdef"]:
                d["default"] = t["default"]
        elif k == "fixed":
            d["size"] = t["size"]
            if t.get("lt") == "decimal":
                d["logicalType"] = "decimal"
                d["precision"] = t["prec"]
                d["scale"] = t["scale"]
        else:
            fs = []
            for f in t["fields"]:
                # {"type": "double"} with an integer default is rejected by fastavro (C11 finding); keep that out of other checks
                fd = {"name": f["name"], "type": self.render(f["type"], tns, plain=f["hasdef"] and not self.dict_prims_with_defaults)}
                if f["hasdef"]:
                    fd["default"] = f["default"]
                if f.get("aliases"):
                    fd["aliases"] = list(f["aliases"])
                if r.random() < 0.1:
                    fd["doc"] = "doc é"
                fs.append(fd)
            d["fields"] = fs
            if r.random() < 0.1:
                d["doc"] = "a record"
        if r.random() < 0.3:
            items = list(d.items())
            r.shuffle(items)
            d = dict(items)
        return d

    # ------------------------------------------------------------------ data
    # ---- single-fault injection: the value at the k-th visited node is replaced by a non-conforming one
    fault_countdown = None
    fault_done = None

    def faulty_datum(self, t, hints=True):
        """(datum, fault kind) with exactly one mutation at a random position; kind None if the countdown ran past the end."""
        probe = self.datum_counting(t, hints)
        self.fault_countdown = self.r.randrange(max(1, probe))
        self.fault_done = None
        try:
            d = self.datum(t, hints=hints)
        finally:
            self.fault_countdown = None
        return d, self.fault_done

    def datum_counting(self, t, hints):
        self.fault_countdown = 10 ** 9
        state = self.r.getstate()
        try:
            self.datum(t, hints=hints)
        except (NoDatum, RecursionError):
            pass
        n = 10 ** 9 - self.fault_countdown
        self.fault_countdown = None
        self.r.setstate(state)
        return n

    def bad_value(self, t):
        """A value that does not conform to (resolved) type t under the documented mapping."""
        r = self.r
        k = t["k"]
        if k == "prim":
            n = t["name"]
            choices = {
                "null": [0, "", False, []],
                "boolean": [0, 1, None, "true"],
                "int": [2 ** 31, -2 ** 31 - 1, True, 1.0, "1", None, 2 ** 63],
                "long": [2 ** 63, -2 ** 63 - 1, False, 1.5, "1", None],
                "float": ["1.0", None, True, [1.0]],
                "double": ["nan", None, False, {}],
                "bytes": ["text", 5, None, [1, 2]],
                "string": [b"bytes", 5, None, ["a"], b"long bytes " * 30],
            }[n]
            if n in ("int", "long", "boolean", "null") and r.random() < 0.15:
                choices = [b"\x00\x01" * 200, "long text é " * 40]        # long values (error messages abbreviate them)
            if t.get("lt"):
                choices = [[], {"x": 1}]
                if t["lt"] == "decimal":
                    # a decimal the annotation cannot represent: one digit too many / one fractional digit too many
                    choices = [decimal.Decimal((0, (9,) * (t["prec"] + 1), -t["scale"])), decimal.Decimal((1, (1,), -t["scale"] - 1)), "1.5"]
                elif t["lt"] == "date":
                    choices += ["not-a-date", 2 ** 31]
            self.fault_done = "wrong-type:" + n
            return r.choice(choices)
        if k == "enum":
            self.fault_done = "unknown-symbol"
            return r.choice(["NOT_A_SYMBOL", "", 5, None, t["syms"][0].lower() + "?"])
        if k == "fixed":
            self.fault_done = "fixed-size"
            if t.get("lt"):
                return r.choice([[], "x", decimal.Decimal((0, (9,) * (t["prec"] + 1), -t["scale"]))])
            return r.choice([b"x" * (t["size"] + 1), b"x" * max(0, t["size"] - 1) if t["size"] else b"xy", bytearray(b"x" * t["size"]), "x" * t["size"], None,
                             b"y" * 300])
        if k == "array":
            self.fault_done = "not-a-sequence"
            return r.choice(["abc", 5, None, {"a": 1}])
        if k == "map":
            self.fault_done = r.choice(["not-a-mapping", "non-string-key"])
            if self.fault_done == "non-string-key":
                return {1: self.safe_value(t["values"])}
            return r.choice([[("a", 1)], "abc", 5, None])
        if k == "record":
            self.fault_done = "not-a-mapping"
            return r.choice([[1], "abc", 5, None, ("x", "y", "z")])
        if k == "union":
            self.fault_done = "wrong-hint"
            return (r.choice(["nosuchbranch", "Int", "records", ""]), None)
        raise AssertionError(k)

    def safe_value(self, t):
        saved, self.fault_countdown = self.fault_countdown, None
        try:
            return self.datum(t, hints=False)
        finally:
            self.fault_countdown = saved

    def datum(self, t, depth=0, hints=True, omit=True):
        """A Python value conforming to IR type t."""
        r = self.r
        t = self.resolve(t)
        k = t["k"]
        if depth > 30:
            raise NoDatum()        # TLC's JSON reader has a nesting limit of 255; deeper data are not worth it either
        if self.fault_countdown is not None:
            if self.fault_countdown == 0:
                self.fault_countdown = -1
                return self.bad_value(t)
            if self.fault_countdown > 0:
                self.fault_countdown -= 1
        if k == "prim":
            return self.prim_datum(t)
        if k == "enum":
            if not t["syms"]:
                raise NoDatum("enum without symbols")
            return r.choice(t["syms"])
        if k == "fixed":
            if t.get("lt") == "decimal":
                return self.decimal_for(t["prec"], t["scale"], t["size"])
            return bytes(r.getrandbits(8) for _ in range(t["size"]))
        if k == "array":
            n = self.coll_size(depth)
            out = [self.datum(t["items"], depth + 1, hints, omit) for _ in range(n)]
            it = self.resolve(t["items"])
            if self.typed_arrays and out and it["k"] == "prim" and "lt" not in it and r.random() < 0.4:
                # a typed array (array.array) is a sequence like any other; its item width need not be the schema's
                try:
                    if it["name"] in ("int", "long") and all(type(x) is int for x in out):
                        return array.array("q", out)
                    if it["name"] in ("float", "double") and all(type(x) is float for x in out):
                        return array.array(r.choice("fd"), out)
                except (OverflowError, TypeError):
                    pass
            return out
        if k == "map":
            n = self.coll_size(depth)
            keys = set()
            while len(keys) < n:
                keys.add(r.choice(STR_POOL) if r.random() < 0.5 else "k%d" % r.randint(0, 10 ** 6))
            keys = list(keys)
            r.shuffle(keys)
            m = {key: self.datum(t["values"], depth + 1, hints, omit) for key in keys}
            if self.mapping_views and r.random() < 0.12:
                return types.MappingProxyType(m)          # a Mapping that is not a dict
            return m
        if k == "record":
            return self.record_datum(t, depth, hints, omit)
        if k == "union":
            cands = list(range(len(t["br"])))
            if depth > 4:
                # steer towards termination
                small = [i for i in cands if self.resolve(t["br"][i])["k"] in ("prim", "enum", "fixed")]
                cands = small or cands
            if not cands:
                raise NoDatum()
            i = r.choice(cands)
            b = t["br"][i]
            rb = self.resolve(b)
            v = self.datum(b, depth + 1, hints, omit)
            if rb["k"] == "prim" and rb["name"] in ("long", "double") and "lt" not in rb and r.random() < 0.6 and \
                    any(self.resolve(x)["k"] == "prim" and self.resolve(x)["name"] == "int" for x in t["br"][:i]):
                v = r.choice([2 ** 31, -2 ** 31 - 1])            # just outside int: the int branch ahead must not take it
            if rb["k"] == "prim" and rb["name"] in ("int", "long", "float", "double") and "lt" not in rb and r.random() < 0.3 and \
                    any(self.resolve(x)["k"] == "prim" and self.resolve(x)["name"] == "boolean" for x in t["br"][:i]):
                v = r.choice([0, 1]) if rb["name"] in ("int", "long") else r.choice([0.0, 1.0, 0, 1])     # 1 == True, but 1 is not a boolean
            if hints and r.random() < 0.25:
                nm = rb["full"] if rb["k"] in ("record", "enum", "fixed") else (rb["name"] if rb["k"] == "prim" else rb["k"])
                return (nm, v)
            if hints and rb["k"] == "record" and isinstance(v, dict) and r.random() < 0.2:
                v = dict(v)
                v["-type"] = rb["full"]
            return v
        raise AssertionError(k)

    def coll_size(self, depth):
        r = self.r
        if depth > 3:
            return r.choice([0, 0, 1])
        x = r.random()
        if self.big and x < 0.03 and depth == 0:
            return r.choice([63, 64, 65, 130, 200])
        return r.choice([0, 0, 1, 1, 2, 3, 5])

    def record_datum(self, t, depth, hints, omit):
        r = self.r
        out = {}
        for f in t["fields"]:
            ft = self.resolve(f["type"])
            if self.fault_countdown == 0 and not f["hasdef"] and not self.accepts_null(ft) and r.random() < 0.5:
                self.fault_countdown = -1
                self.fault_done = "missing-required-field"
                continue
            if omit and f["hasdef"] and r.random() < 0.5:
                continue
            if f["hasdef"] and f["default"] is not None and self.accepts_null(ft) and r.random() < 0.4:
                out[f["name"]] = None          # an explicit None is a value (the null branch), not an absent field
                continue
            if omit and not f["hasdef"] and self.accepts_null(ft) and r.random() < (0.5 if ft["k"] == "prim" else 0.2):
                continue          # (a field of plain type "null" is left out half of the time)
            if depth > 5 and self.accepts_null(ft):
                out[f["name"]] = None
                continue
            out[f["name"]] = self.datum(f["type"], depth + 1, hints, omit)
        if r.random() < 0.1:
            out["extra_key"] = 1
        keys = list(out.items())
        if r.random() < 0.3:
            r.shuffle(keys)
        return dict(keys)

    def accepts_null(self, ft):
        if ft["k"] == "prim":
            return ft["name"] == "null" and "lt" not in ft
        if ft["k"] == "union":
            return any(self.resolve(b)["k"] == "prim" and self.resolve(b)["name"] == "null" for b in ft["br"])
        return False

    def prim_datum(self, t):
        r = self.r
        n = t["name"]
        lt = t.get("lt")
        if lt:
            return self.logical_datum(t)
        if n == "null":
            return None
        if n == "boolean":
            return r.random() < 0.5
        if n == "int":
            x = r.random()
            if x < 0.2:
                return r.choice([2 ** 31 - 1, -2 ** 31, -2 ** 31])   # the extremes are not symmetric
            return r.choice(INT_POOL) if x < 0.6 else r.randint(-2 ** 31, 2 ** 31 - 1)
        if n == "long":
            x = r.random()
            if x < 0.15:
                return r.choice([2 ** 63 - 1, 2 ** 63 - 1, -2 ** 63])
            if x < 0.22:
                return r.choice([2 ** 31, -2 ** 31 - 1, 2 ** 31 - 1, -2 ** 31])      # just outside / inside int
            if x < 0.6:
                return r.choice(LONG_POOL)
            k = r.randint(1, 9)
            return r.choice([1, -1]) * (2 ** (7 * k - 1) + r.choice([-1, 0, 1])) if x < 0.8 else r.randint(-2 ** 63, 2 ** 63 - 1)
        if self.json_safe and n in ("float", "double"):
            # JSON has no NaN/Infinity; "compared by value" needs binary32-exact values under float and exactly representable integers
            pool = [0.0, -0.0, 1.0, -1.5, 0.5, 0.25, 1.401298464324817e-45, 16777216.0, 3.4028234663852886e38, 0.1 if n == "double" else 0.125, 7, -3, 2 ** 24]
            if n == "double":
                pool += [1 / 3, 5e-324, 1.7976931348623157e308, 2 ** 53, -2 ** 40]
            x = r.random()
            if x < 0.6:
                return r.choice(pool)
            if n == "float":
                v = struct.unpack("<f", struct.pack("<I", r.getrandbits(32)))[0]
            else:
                v = struct.unpack("<d", struct.pack("<Q", r.getrandbits(64)))[0]
            return v if (v == v and abs(v) != float("inf")) else 1.0
        if n == "double":
            x = r.random()
            if x < 0.5:
                return r.choice(DOUBLE_POOL)
            if x < 0.6:
                return r.choice(LONG_POOL)     # ints are accepted under double
            v = struct.unpack("<d", struct.pack("<Q", r.getrandbits(64)))[0]
            return v if v == v else float("nan")        # NaN payloads are not visible to the projection: canonical NaN only
        if n == "float":
            x = r.random()
            if x < 0.5:
                return r.choice(FLOAT_POOL)
            if x < 0.6:
                return r.choice(INT_POOL)
            if x < 0.8:
                v = struct.unpack("<f", struct.pack("<I", r.getrandbits(32)))[0]
                return v if v == v else float("nan")
            e = r.randint(-50, 38)
            v = r.uniform(-10, 10) * 10.0 ** e
            return v if abs(v) < 3.4e38 else 1.0
        if n == "bytes":
            x = r.random()
            if x < 0.1:
                return bytes(range(256)) + (b"" if x < 0.05 else bytes(r.getrandbits(8) for _ in range(r.choice([1, 44, 300]))))
            b = bytes(r.getrandbits(8) for _ in range(r.choice([0, 1, 2, 5, 63, 64, 65]) if x < 0.5 else r.randint(0, 12)))
            return bytearray(b) if r.random() < 0.15 else b
        if n == "string":
            x = r.random()
            if self.big and x < 0.01:
                return "é" * 4200 + "a" * 100
            if x < 0.7:
                return r.choice(STR_POOL)
            return "".join(chr(r.choice([r.randint(32, 126), r.randint(0x80, 0x7ff), r.randint(0x800, 0xd7ff), r.randint(0xe000, 0xffff),
                                         r.randint(0x10000, 0x10ffff)])) for _ in range(r.randint(0, 8)))
        raise AssertionError(n)

    # ------------------------------------------------------------------ logical values
    def logical_datum(self, t):
        r = self.r
        lt = t["lt"]
        if lt == "date":
            return datetime.date.fromordinal(r.choice([1, 3652059, 719163, 719162, 719164, r.randint(1, 3652059)]))
        if lt == "time-millis":
            return datetime.time(r.randint(0, 23), r.randint(0, 59), r.randint(0, 59), r.choice([0, 1000, 999000, r.randint(0, 999) * 1000]))
        if lt == "time-micros":
            return datetime.time(r.randint(0, 23), r.randint(0, 59), r.randint(0, 59), r.choice([0, 1, 999999, r.randint(0, 999999)]))
        if lt in ("timestamp-millis", "timestamp-micros"):
            us = r.randint(0, 999999) if lt.endswith("micros") else r.randint(0, 999) * 1000
            off = datetime.timedelta(minutes=r.choice([0, 0, 60, -300, 330, 765, -720, 1439, -1439]))
            base = datetime.datetime(r.randint(2, 9998), r.randint(1, 12), r.randint(1, 28), r.randint(0, 23), r.randint(0, 59), r.randint(0, 59), us)
            return base.replace(tzinfo=datetime.timezone(off))
        if lt in ("local-timestamp-millis", "local-timestamp-micros"):
            us = r.randint(0, 999999) if lt.endswith("micros") else r.randint(0, 999) * 1000
            return datetime.datetime(r.randint(1, 9999), r.randint(1, 12), r.randint(1, 28), r.randint(0, 23), r.randint(0, 59), r.randint(0, 59), us)
        if lt == "uuid":
            return uuid.UUID(int=r.getrandbits(128))
        if lt == "decimal":
            return self.decimal_for(t["prec"], t["scale"], None)
        raise AssertionError(lt)

    def decimal_for(self, prec, scale, size):
        r = self.r
        nd = r.randint(1, prec)
        digits = [r.randint(1, 9)] + [r.randint(0, 9) for _ in range(nd - 1)]
        if r.random() < 0.15:
            digits = [0]
        # exponent between -scale and what precision allows
        max_exp = prec - len(digits) - scale
        exp = r.randint(-scale, max(-scale, min(max_exp, 3)))
        sign = r.choice([0, 1])
        d = decimal.Decimal((sign, tuple(digits), exp))
        if size is not None:
            unscaled = int(d.scaleb(scale))
            if not (-(1 << (8 * size - 1)) <= unscaled < (1 << (8 * size - 1))):
                return decimal.Decimal((0, (1,), -scale if scale else 0))
        return d


class NoDatum(Exception):
    pass


def count_nodes(t):
    k = t["k"]
    if k == "record":
        return 1 + sum(count_nodes(f["type"]) for f in t["fields"])
    if k == "array":
        return 1 + count_nodes(t["items"])
    if k == "map":
        return 1 + count_nodes(t["values"])
    if k == "union":
        return 1 + sum(count_nodes(b) for b in t["br"])
    return 1
