"""Running TLC: batch validation of logged cases (V), model checking (M), case generation (G)."""
import json
import os
import re
import shutil
import subprocess
import time
from concurrent.futures import ThreadPoolExecutor

VERIF = os.path.dirname(os.path.dirname(os.path.abspath(__file__)))
JARS = "/opt/veriftools/tla/tla2tools.jar:/opt/veriftools/tla/CommunityModules-deps.jar"
LIB = ":".join(os.path.join(VERIF, d) for d in ("spec", "trace", "mc"))
# VERIF_OUT: where scratch files, evidence and replays go (default: /verif). tools/mutant.sh points it elsewhere so that runs against a
# seeded change never overwrite the evidence of the real tree and several of them can run at once.
OUT = os.environ.get("VERIF_OUT") or VERIF
WORK = os.path.join(OUT, ".work")
os.makedirs(WORK, exist_ok=True)
NCPU = os.cpu_count() or 4


class MachineryError(Exception):
    """TLC or the harness failed: exit code 2, never a VIOLATION."""


def java_cmd(module_path, cfg, metadir, workers=1, xss="64m", xmx="3g", extra=(), c1=False):
    jtmp = os.path.join(os.path.dirname(metadir), "jtmp")       # TLC unpacks its standard modules into java.io.tmpdir
    os.makedirs(jtmp, exist_ok=True)
    return ["java", "-Djava.io.tmpdir=" + jtmp, "-Xss" + xss, "-Xmx" + xmx, "-XX:+UseSerialGC" if workers == 1 else "-XX:+UseParallelGC"] + (
        ["-XX:TieredStopAtLevel=1"] if c1 else ["-XX:CICompilerCount=2"] if workers == 1 else []) + [
            "-DTLA-Library=" + LIB, "-cp", JARS, "tlc2.TLC", "-workers", str(workers), "-metadir", metadir,
            "-noGenerateSpecTE", "-config", cfg] + list(extra) + [module_path]


STATS_RE = re.compile(r"(\d+) states generated, (\d+) distinct states found")
STR_RE = re.compile(r'"((?:[^"\\]|\\.)*)"')


TUP_RE = re.compile(r'<<\s*"([A-Z])",')


def iter_tuples(out):
    """Yield (tag, [strings...]) for every printed tuple <<"X", ...>> (TLC pretty-prints over several lines)."""
    pos = 0
    while True:
        m = TUP_RE.search(out, pos)
        if not m:
            return
        i = m.start()
        depth = 0
        j = i
        n = len(out)
        instr = False
        while j < n:
            ch = out[j]
            if instr:
                if ch == "\\":
                    j += 1
                elif ch == '"':
                    instr = False
            elif ch == '"':
                instr = True
            elif out.startswith("<<", j):
                depth += 1
                j += 1
            elif out.startswith(">>", j):
                depth -= 1
                j += 1
                if depth == 0:
                    break
            j += 1
        body = out[i:j + 1]
        strs = STR_RE.findall(body)
        yield strs[0], strs[1:]
        pos = j + 1


def _unescape(s):
    out = []
    i = 0
    while i < len(s):
        ch = s[i]
        if ch == "\\" and i + 1 < len(s):
            nx = s[i + 1]
            out.append({"n": "\n", "t": "\t", "r": "\r", "f": "\f"}.get(nx, nx))
            i += 2
        else:
            out.append(ch)
            i += 1
    return "".join(out)


def parse_stats(out):
    g = d = 0
    for m in STATS_RE.finditer(out):
        g, d = int(m.group(1)), int(m.group(2))
    return g, d


def _run_shard(args):
    """Run one shard; on a TLC evaluation error, record the case in progress as crashed and continue after it."""
    shard_dir, cases, module, env_extra = args
    results = {}
    crashes = []
    gen = dist = 0
    pending = list(cases)
    rounds = 0
    logs = []
    while pending:
        rounds += 1
        path = os.path.join(shard_dir, "cases_%d.ndjson" % rounds)
        with open(path, "w") as f:
            for c in pending:
                f.write(json.dumps(c, separators=(",", ":")))
                f.write("\n")
        meta = os.path.join(shard_dir, "meta_%d" % rounds)
        env = dict(os.environ)
        env["CASES"] = path
        env.update(env_extra or {})
        cmd = java_cmd(os.path.join(VERIF, "trace", module), os.path.join(VERIF, "trace", module + ".cfg"), meta,
                       c1=sum(len(json.dumps(c)) for c in pending) < 400000)
        timed_out = False
        try:
            p = subprocess.run(cmd, cwd=shard_dir, env=env, stdout=subprocess.PIPE, stderr=subprocess.STDOUT, text=True,
                               timeout=int(os.environ.get("VERIF_TLC_TIMEOUT", "1500")))
            out = p.stdout
        except subprocess.TimeoutExpired as e:
            # one case is pathologically expensive for the spec (seen with files a changed library filled with garbage): it is set
            # aside like a case TLC fails on, the rest of the shard is judged
            out = e.stdout if isinstance(e.stdout, str) else (e.stdout or b"").decode("utf-8", "replace")
            out += "\nError: timeout while judging the case in progress\n"
            timed_out = True
        logs.append(out)
        shutil.rmtree(meta, ignore_errors=True)
        shutil.rmtree(os.path.join(shard_dir, "jtmp"), ignore_errors=True)
        g, d = parse_stats(out)
        gen += g
        dist += d
        if "Parsing or semantic analysis failed" in out or "Could not find" in out:
            raise MachineryError("TLC could not parse the specification:\n" + "\n".join(
                l for l in out.splitlines() if l.strip() and not l.startswith(("Parsing", "Semantic", "Linting")))[:3000])
        begun = None
        done = set()
        for kind, strs in iter_tuples(out):
            if kind == "B":
                begun = strs[0] if strs else None
            elif kind == "G":
                cid = strs[0]
                results[cid] = json.loads(_unescape(strs[1]))
                done.add(cid)
            elif kind == "R":
                cid = strs[0]
                verdicts = []
                for s_ in strs[1:]:
                    if "=" in s_:
                        cl, v = s_.rsplit("=", 1)
                        verdicts.append((cl, v))
                results[cid] = verdicts
                done.add(cid)
        ids = [c["id"] for c in pending]
        if all(i in done for i in ids):
            if "Model checking completed. No error has been found." not in out:
                raise MachineryError("TLC did not complete cleanly in %s:\n%s" % (shard_dir, out[-3000:]))
            break
        # some case was not judged: TLC stopped. The case in progress is the culprit.
        if begun is None or begun in done:
            raise MachineryError("TLC stopped without a case in progress in %s:\n%s" % (shard_dir, out[-3000:]))
        err = [l for l in out.splitlines() if "rror" in l or "xception" in l][:6]
        crashes.append((begun, "\n".join(err)))
        results[begun] = [("S.crash", "fail")]
        k = ids.index(begun)
        pending = pending[k + 1:]
        if rounds > 25:
            raise MachineryError("too many TLC evaluation errors in %s; last:\n%s" % (shard_dir, out[-3000:]))
    with open(os.path.join(shard_dir, "tlc.log"), "w") as f:
        f.write("\n=====\n".join(logs))
    return results, crashes, gen, dist


def _json_depth(text):
    d = m = 0
    instr = esc = False
    for ch in text:
        if instr:
            if esc:
                esc = False
            elif ch == "\\":
                esc = True
            elif ch == '"':
                instr = False
        elif ch == '"':
            instr = True
        elif ch in "[{":
            d += 1
            m = max(m, d)
        elif ch in "]}":
            d -= 1
    return m


def run_cases(cases, name, module="Cases", shards=None, env_extra=None):
    """Judge all cases with TLC. Returns dict(results=id->[(clause, verdict)], crashes, states, distinct, wall)."""
    t0 = time.time()
    for i, c in enumerate(cases):
        assert "id" in c and "op" in c
    # TLC's JSON reader (Gson) refuses documents nested deeper than 255: such a case (a value generated 100+ levels deep) is set aside
    too_deep = {c["id"] for c in cases if len(json.dumps(c)) > 3000 and _json_depth(json.dumps(c)) > 240}
    all_cases = cases
    cases = [c for c in cases if c["id"] not in too_deep]
    base = os.path.join(WORK, name)
    shutil.rmtree(base, ignore_errors=True)
    os.makedirs(base)
    if shards is None:
        shards = max(1, min(NCPU, (len(cases) + 19) // 20))
    buckets = [[] for _ in range(shards)]
    # deal round-robin by descending size so shards are balanced
    order = sorted(range(len(cases)), key=lambda i: -len(json.dumps(cases[i], separators=(",", ":"))))
    for j, i in enumerate(order):
        buckets[j % shards].append(cases[i])
    jobs = []
    for s, b in enumerate(buckets):
        if not b:
            continue
        d = os.path.join(base, "shard%02d" % s)
        os.makedirs(d)
        jobs.append((d, b, module, env_extra))
    results = {}
    crashes = []
    gen = dist = 0
    with ThreadPoolExecutor(max_workers=NCPU) as ex:
        for r, cr, g, d in ex.map(_run_shard, jobs):
            results.update(r)
            crashes.extend(cr)
            gen += g
            dist += d
    for cid in too_deep:
        results[cid] = [("H.too_deep", "skip")]
    cases = all_cases
    missing = [c["id"] for c in cases if c["id"] not in results]
    if missing:
        raise MachineryError("cases not judged: %s" % missing[:5])
    return {"results": results, "crashes": crashes, "states": dist, "transitions": gen, "wall": time.time() - t0}


def run_model(module, cfg=None, workers=NCPU, extra=(), timeout=3600, subdir="mc", xss="16m", xmx="8g", env_extra=None):
    """Model-check mc/<module>.tla. Returns (ok, output, generated, distinct)."""
    base = os.path.join(WORK, "M_" + module)
    shutil.rmtree(base, ignore_errors=True)
    os.makedirs(base)
    cfg = cfg or os.path.join(VERIF, subdir, module + ".cfg")
    cmd = java_cmd(os.path.join(VERIF, subdir, module), cfg, os.path.join(base, "meta"), workers=workers, xss=xss, xmx=xmx,
                   extra=extra)
    env = dict(os.environ)
    env.update(env_extra or {})
    try:
        p = subprocess.run(cmd, cwd=base, env=env, stdout=subprocess.PIPE, stderr=subprocess.STDOUT, text=True, timeout=timeout)
    except subprocess.TimeoutExpired as e:
        raise MachineryError("TLC timed out on %s after %ss" % (module, timeout)) from e
    out = p.stdout
    shutil.rmtree(os.path.join(base, "meta"), ignore_errors=True)
    shutil.rmtree(os.path.join(base, "jtmp"), ignore_errors=True)
    with open(os.path.join(base, "tlc.log"), "w") as f:
        f.write(out)
    g, d = parse_stats(out)
    ok = "Model checking completed. No error has been found." in out
    return ok, out, g, d
