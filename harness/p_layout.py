"""C03 (and the schemaless half of C06): spec-generated layouts replayed into the schemaless reader (G direction)."""
import io

from . import core, gen, proj, tlc


def veq(a, b):
    """Equality of projected values: dicts as mappings; NaN is canonical in the projection so plain equality suffices."""
    if a == b:
        return True
    if a.get("p") != b.get("p"):
        return False
    p = a["p"]
    if p in ("list", "tuple"):
        return len(a["it"]) == len(b["it"]) and all(veq(x, y) for x, y in zip(a["it"], b["it"]))
    if p == "dict":
        if len(a["ks"]) != len(b["ks"]):
            return False
        for k, v in zip(a["ks"], a["vs"]):
            hit = [j for j, kk in enumerate(b["ks"]) if kk == k]
            if len(hit) != 1 or not veq(v, b["vs"][hit[0]]):
                return False
        return True
    return False


def read_outcome(fa, data, wschema, rschema=None, **kw):
    fo = io.BytesIO(data)
    try:
        v = fa.schemaless_reader(fo, wschema, rschema, **kw) if rschema is not None else fa.schemaless_reader(fo, wschema, **kw)
    except Exception as e:  # noqa: BLE001
        return ("raise", type(e).__name__, None)
    return ("value", v, fo.tell())


def make_inputs(ctx, n, label):
    rnd = ctx.sub_rnd(label)
    cases = []
    irs = {}
    tries = 0
    while len(cases) < n and tries < n * 6:
        tries += 1
        g = gen.Gen(rnd, logical=False, max_depth=rnd.choice([1, 2, 2, 3]), big=(rnd.random() < 0.15))
        ir = g.schema(top=rnd.choice([None, None, "array", "map", "union", "record"]))
        raw = g.render(ir)
        try:
            d = g.datum(ir, hints=(rnd.random() < 0.3))
        except (gen.NoDatum, RecursionError):
            continue
        cid = "%s%d" % (label, len(cases))
        cases.append({"id": cid, "op": "layout", "schema": proj.pj(raw), "datum": proj.pv(d), "tuples": True,
                      "choices": [rnd.randint(0, 1000) for _ in range(24)]})
        irs[cid] = raw
    return cases, irs


def prefix_offsets(rnd, n, structural):
    if n <= 300:
        return list(range(n))
    s = set([0, 1, 2, n - 1, n - 2])
    for p in structural:
        for d in (-1, 0, 1):
            if 0 <= p + d < n:
                s.add(p + d)
    while len(s) < 120:
        s.add(rnd.randrange(n))
    return sorted(s)


def run(ctx, fa, own):
    n = 500 if ctx.quick() else 6000
    cases, raws = make_inputs(ctx, n, "ly")
    res = tlc.run_cases(cases, "%s-%s-layout" % (ctx.prop, ctx.tier), module="GenLayout")
    ctx.add_model(res["transitions"], res["states"])
    ctx.checker_cmds.append("tlc GenLayout.tla over %d (schema, datum, choice stream) cases; replay into schemaless_reader" % len(cases))
    for cid, msg in res["crashes"]:
        ctx.machinery.append("TLC evaluation error on case %s: %s" % (cid, msg[:300]))
    rnd = ctx.sub_rnd("replay")
    for c in cases:
        g = res["results"][c["id"]]
        if not isinstance(g, dict):
            continue
        st = g["st"]
        if st.startswith("H."):
            ctx.machinery.append("generator produced an invalid case %s: %s" % (c["id"], st))
            core.dump_replay(ctx, c, st, subdir="machinery")
            continue
        if st == "unspec":
            ctx.count("C03.layout", "unspec")
            continue
        for k in ("s_partition", "s_match", "s_canon"):
            # the spec's own properties on this instance: partition invariance, layouts are valid encodings
            if not g[k]:
                ctx.machinery.append("spec property %s failed on case %s" % (k, c["id"]))
                core.dump_replay(ctx, dict(c, gen=g), "S." + k, subdir="machinery")
        raw = raws[c["id"]]
        data = bytes(g["b"])
        expect = g["expect"]
        multi = g["nblocks"] > 0
        ctx.traces += 1
        ctx.mark(core.case_key(c["schema"]) + core.case_key(c["datum"]) + core.case_key(c["choices"]), multi or bool(g["ix"]) or len(data) > 0)
        case = dict(c, bytes=list(data), expect=expect)

        def fail(clause, what, **kw):
            cc = dict(case, what=what, **kw)
            sig = {"what": what}
            sig.update({k: v for k, v in kw.items() if k in ("kind",)})
            kf = core.match_known(ctx.prop, clause, sig)
            if kf:
                ctx.count(clause, "known")
                ctx.known_hits.append((kf, cc))
            else:
                ctx.count(clause, "fail")
                ctx.violations.append((clause, cc, "%s schema=%s" % (what, repr(raw)[:160])))

        # (1) the layout decodes to the value (returned)
        if own("C03."):
            kind, v, pos = read_outcome(fa, data, raw)
            if kind == "value" and veq(proj.pv(v), expect) and pos == len(data):
                ctx.count("C03.layout", "ok")
            else:
                fail("C03.layout", "layout-read", got=(repr(v)[:200]), pos=pos)
            # (2) ... and when skipped during resolution: {x: T, marker: long} read as {marker: long}
            w = {"type": "record", "name": "Zz_wrap", "fields": [{"name": "x", "type": raw}, {"name": "marker", "type": "long"}]}
            r = {"type": "record", "name": "Zz_wrap", "fields": [{"name": "marker", "type": "long"}]}
            kind, v, pos = read_outcome(fa, data + bytes(g["marker"]), w, r)
            if kind == "value" and v == {"marker": 12345} and pos == len(data) + len(g["marker"]):
                ctx.count("C03.skip", "ok")
            else:
                fail("C03.skip", "layout-skip", got=(repr(v)[:200]), pos=pos)
            # (3) out-of-range indices planted at every union / enum position must raise
            rdef = _with_enum_defaults(raw)
            simple = [n.rsplit(".", 1)[-1] for n in _type_names(raw)]
            dup_simple = len(simple) != len(set(simple))
            for e, bads in zip(g["ix"], g["bad"]):
                for bad in bads:
                    patched = data[:e["pos"]] + bytes(bad) + data[e["pos"] + e["len"]:]
                    kind, v, pos = read_outcome(fa, patched, raw)
                    val = proj.unpint({"neg": False, "mag": []})  # placeholder; value decoded below
                    bv = _unvarint(bad)
                    if kind == "raise":
                        ctx.count("C03.index", "ok")
                    else:
                        fail("C03.index", "index-accepted", kind="negative" if bv < 0 else "too-large", index=bv, n=e["n"], got=repr(v)[:120])
                    # ... also when a reader schema is given whose enums have a default (an index outside the WRITER's list is not
                    # "a symbol the reader does not know": there is no symbol)
                    if dup_simple:
                        continue          # two types of one simple name: resolution matches by unqualified name, not this check's business
                    kind, v, pos = read_outcome(fa, patched, raw, rdef)
                    if kind == "raise":
                        ctx.count("C03.index", "ok")
                    else:
                        fail("C03.index", "index-accepted-with-reader-default", index=bv, n=e["n"], got=repr(v)[:120])
        # (2b) skipped as the LAST thing of the input (a reader schema that drops the field): a cut inside the skipped value must still raise
        if own("C03.") or own("C06."):
            sp_clause = "C03.skip_prefix" if own("C03.") else "C06.skip_prefix"
            r = {"type": "record", "name": "Zz_wrap", "fields": [{"name": "marker", "type": "long"}]}
            w2 = {"type": "record", "name": "Zz_wrap", "fields": [{"name": "marker", "type": "long"}, {"name": "x", "type": raw}]}
            full = bytes(g["marker"]) + data
            offs2 = prefix_offsets(rnd, len(data), [e["pos"] for e in g["ix"]])
            bad_off = None
            for k in offs2:
                kind, v, pos = read_outcome(fa, full[:len(g["marker"]) + k], w2, r)
                if kind != "raise":
                    bad_off = k
                    break
            if bad_off is None:
                ctx.count(sp_clause, "ok", len(offs2))
                kind, v, pos = read_outcome(fa, full, w2, r)
                if not (kind == "value" and v == {"marker": 12345} and pos == len(full)):
                    fail(sp_clause, "layout-skip-last", got=repr(v)[:200], pos=pos)
            else:
                fail(sp_clause, "skip-prefix-accepted", offset=bad_off, got=repr(v)[:120])
        # (4) every proper prefix raises (C03 short input; C06 schemaless half)
        if own("C03.") or own("C06."):
            clause = "C03.prefix" if own("C03.") else "C06.prefix"
            offs = prefix_offsets(rnd, len(data), [e["pos"] for e in g["ix"]])
            bad_off = None
            for k in offs:
                kind, v, pos = read_outcome(fa, data[:k], raw)
                if kind == "raise" and k % 3 == 0:
                    # a lenient text option makes undecodable text acceptable, not missing bytes
                    kind, v, pos = read_outcome(fa, data[:k], raw, handle_unicode_errors="replace")
                if kind != "raise":
                    bad_off = k
                    break
            if bad_off is None:
                ctx.count(clause, "ok", len(offs))
            else:
                fail(clause, "prefix-accepted", offset=bad_off, got=repr(v)[:120])
    for c in cases[:3]:
        g = res["results"][c["id"]]
        if isinstance(g, dict) and g.get("st") == "ok":
            ctx.sample({"schema": raws[c["id"]], "datum": repr(proj.unpv(c["datum"]))[:160], "layout_bytes": bytes(g["b"]).hex()[:120],
                        "index_positions": g["ix"][:4]})


def _type_names(n, ns=""):
    """Full names of the named types defined in a raw schema (specification's namespace rules)."""
    out = []
    if isinstance(n, list):
        for b in n:
            out += _type_names(b, ns)
    elif isinstance(n, dict):
        t = n.get("type")
        if t in ("record", "error", "enum", "fixed") and isinstance(n.get("name"), str):
            name = n["name"]
            if "." in name:
                full, ns2 = name, name.rsplit(".", 1)[0]
            else:
                ns2 = n.get("namespace", ns)
                full = ns2 + "." + name if ns2 else name
            out.append(full)
            for f in n.get("fields", []) if isinstance(n.get("fields"), list) else []:
                out += _type_names(f.get("type"), ns2)
        else:
            for k in ("items", "values"):
                if k in n:
                    out += _type_names(n[k], ns)
            if isinstance(t, (dict, list)):
                out += _type_names(t, ns)
    return out


def _with_enum_defaults(raw):
    """The same schema with a default given to every enum (a reader schema that differs from the writer's in that only)."""
    import copy
    s = copy.deepcopy(raw)

    def walk(n):
        if isinstance(n, list):
            for b in n:
                walk(b)
        elif isinstance(n, dict):
            if n.get("type") == "enum" and n.get("symbols"):
                n.setdefault("default", n["symbols"][0])
            for k in ("items", "values"):
                if k in n:
                    walk(n[k])
            for f in n.get("fields", []) if isinstance(n.get("fields"), list) else []:
                walk(f.get("type"))
            if isinstance(n.get("type"), (dict, list)):
                walk(n["type"])
    walk(s)
    return s


def _unvarint(bs):
    n = 0
    for i, b in enumerate(bs):
        n |= (b & 0x7F) << (7 * i)
    return (n >> 1) ^ -(n & 1)


def run_c03(ctx, fa):
    ctx.rule = ("seeded (schema, datum, choice stream); TLC (AvroLayout!EncodeLayout) turns each into a specification-valid layout with arrays/maps "
                "split into blocks of positive or negative-count form, checks partition invariance on the spec, prints bytes + expected value + "
                "index positions; replayed into schemaless_reader (returned and skipped), every union/enum index replaced by 6 out-of-range "
                "values, every proper prefix (all offsets up to 300 bytes, structural and sampled beyond); non-trivial = non-empty encoding")
    from . import p_binary
    from . import p_suite
    p_binary.model_and_replay(ctx, fa, ("C03.",))
    run(ctx, fa, lambda p: p == "C03.")
    p_suite.run(ctx, {"t_sl_read"}, ("C03.",))
