"""Projection between Python objects and the tagged value model of the TLA+ spec.

This module does no Avro logic: it never encodes, decodes, validates or resolves
anything.  It is (together with TLC and the spec) the trusted base of every verdict.

Text            -> list of code points
Python values   -> {"p": tag, ...}            (pv / unpv)
JSON trees      -> {"j": tag, ...}            (pj / unpj)   raw schemas, json.loads output
Exceptions      -> {"exc": [class names of the MRO]}
No JSON null / float ever appears in the output (TLC's JsonDeserialize rejects them) and
no integer above 2^31-1 (TLC integers are 32 bit): big ints are base-128 limb lists.
"""
import array
import types
import datetime
import decimal
import uuid


def cps(s):
    return [ord(c) for c in s]


def uncps(l):
    return "".join(chr(c) for c in l)


def limbs(n):
    assert n >= 0
    out = []
    while n:
        out.append(n & 127)
        n >>= 7
    return out


def unlimbs(l):
    n = 0
    for i, x in enumerate(l):
        n |= x << (7 * i)
    return n


def pint(n):
    return {"neg": n < 0, "mag": limbs(abs(n))}


def unpint(d):
    n = unlimbs(d["mag"])
    return -n if d["neg"] else n


def pfloat(x):
    """IEEE-754 binary64 fields from float.hex() (a text path; no struct involved)."""
    if x != x:
        return {"sgn": 0, "exp": 2047, "man": [8] + [0] * 12}
    if x in (float("inf"), float("-inf")):
        return {"sgn": 1 if x < 0 else 0, "exp": 2047, "man": [0] * 13}
    h = x.hex()  # [-]0x1.xxxxxxxxxxxxxp[+-]e  or [-]0x0.xxxxp-1022 or 0x0.0p+0
    sgn = 0
    if h[0] == "-":
        sgn = 1
        h = h[1:]
    assert h.startswith("0x")
    mant, e = h[2:].split("p")
    lead, _, frac = mant.partition(".")
    frac = (frac + "0" * 13)[:13]
    man = [int(c, 16) for c in frac]
    e = int(e)
    if lead == "0":
        exp = 0  # zero or subnormal (exponent printed as -1022 for subnormals)
    else:
        exp = e + 1023
    return {"sgn": sgn, "exp": exp, "man": man}


def unpfloat(d):
    if d["exp"] == 2047:
        if any(d["man"]):
            return float("nan")
        return float("-inf") if d["sgn"] else float("inf")
    frac = "".join("%x" % n for n in d["man"])
    if d["exp"] == 0:
        s = "0x0.%sp-1022" % frac
    else:
        s = "0x1.%sp%d" % (frac, d["exp"] - 1023)
    v = float.fromhex(s)
    return -v if d["sgn"] else v


# ---------------------------------------------------------------- Python values
def pv(x):
    if x is None:
        return {"p": "none"}
    t = type(x)
    if t is bool:
        return {"p": "bool", "b": x}
    if t is int:
        d = pint(x)
        d["p"] = "int"
        return d
    if t is float:
        d = pfloat(x)
        d["p"] = "float"
        return d
    if t is str:
        return {"p": "str", "cp": cps(x)}
    if t is bytes:
        return {"p": "bytes", "by": list(x)}
    if t is bytearray:
        return {"p": "bytearray", "by": list(x)}
    if t is list or t is array.array:
        # a typed array is a non-string sequence of ints / floats
        return {"p": "list", "it": [pv(i) for i in x]}
    if t is tuple:
        return {"p": "tuple", "it": [pv(i) for i in x]}
    if t is dict or t is types.MappingProxyType:
        # a read-only mapping view is a string-keyed mapping like any other (the documented Python mapping says "mappings")
        return {"p": "dict", "ks": [pv(k) for k in x.keys()], "vs": [pv(v) for v in x.values()]}
    if t is datetime.datetime:
        off = x.utcoffset()
        aware = off is not None
        offs = 0
        offus = 0
        if aware:
            offs = off.days * 86400 + off.seconds
            offus = off.microseconds
        return {"p": "datetime", "y": x.year, "mo": x.month, "d": x.day, "h": x.hour, "mi": x.minute,
                "s": x.second, "us": x.microsecond, "aware": aware, "off": offs, "offus": offus}
    if t is datetime.date:
        return {"p": "date", "y": x.year, "mo": x.month, "d": x.day}
    if t is datetime.time:
        return {"p": "time", "h": x.hour, "mi": x.minute, "s": x.second, "us": x.microsecond,
                "aware": x.tzinfo is not None}
    if t is decimal.Decimal:
        sign, digits, exp = x.as_tuple()
        if not isinstance(exp, int):
            return {"p": "decimal_special", "kind": cps(str(exp))}
        return {"p": "decimal", "sign": sign, "digits": list(digits), "exp": exp}
    if t is uuid.UUID:
        return {"p": "uuid", "hex": [int(c, 16) for c in x.hex]}
    return {"p": "other", "ty": cps(t.__name__)}


def unpv(d):
    p = d["p"]
    if p == "none":
        return None
    if p == "bool":
        return bool(d["b"])
    if p == "int":
        return unpint(d)
    if p == "float":
        return unpfloat(d)
    if p == "str":
        return uncps(d["cp"])
    if p == "bytes":
        return bytes(d["by"])
    if p == "bytearray":
        return bytearray(d["by"])
    if p == "list":
        return [unpv(i) for i in d["it"]]
    if p == "tuple":
        return tuple(unpv(i) for i in d["it"])
    if p == "dict":
        return {unpv(k): unpv(v) for k, v in zip(d["ks"], d["vs"])}
    if p == "datetime":
        tz = None
        if d["aware"]:
            tz = datetime.timezone(datetime.timedelta(seconds=d["off"], microseconds=d["offus"]))
        return datetime.datetime(d["y"], d["mo"], d["d"], d["h"], d["mi"], d["s"], d["us"], tzinfo=tz)
    if p == "date":
        return datetime.date(d["y"], d["mo"], d["d"])
    if p == "time":
        return datetime.time(d["h"], d["mi"], d["s"], d["us"])
    if p == "decimal":
        return decimal.Decimal((d["sign"], tuple(d["digits"]), d["exp"]))
    if p == "uuid":
        return uuid.UUID(hex="".join("%x" % n for n in d["hex"]))
    raise ValueError("cannot unproject %r" % (p,))


# ---------------------------------------------------------------- JSON trees
def pj(x):
    if x is None:
        return {"j": "z"}
    t = type(x)
    if t is bool:
        return {"j": "b", "b": x}
    if t is int:
        d = pint(x)
        d["j"] = "i"
        return d
    if t is float:
        d = pfloat(x)
        d["j"] = "f"
        return d
    if t is str:
        return {"j": "s", "cp": cps(x)}
    if t is list or t is tuple:
        return {"j": "a", "it": [pj(i) for i in x]}
    if t is dict:
        return {"j": "o", "ks": [cps(k) for k in x.keys()], "vs": [pj(v) for v in x.values()]}
    raise ValueError("not a JSON value: %r" % (t,))


def unpj(d):
    j = d["j"]
    if j == "z":
        return None
    if j == "b":
        return bool(d["b"])
    if j == "i":
        return unpint(d)
    if j == "f":
        return unpfloat(d)
    if j == "s":
        return uncps(d["cp"])
    if j == "a":
        return [unpj(i) for i in d["it"]]
    if j == "o":
        return {uncps(k): unpj(v) for k, v in zip(d["ks"], d["vs"])}
    raise ValueError(j)


def strip_parsed(schema):
    """A parsed fastavro schema without the two marker keys, recursively (markers appear only at
    the top level of records, but be thorough). Pure structural copy."""
    if isinstance(schema, dict):
        return {k: strip_parsed(v) for k, v in schema.items() if k not in ("__fastavro_parsed", "__named_schemas")}
    if isinstance(schema, list):
        return [strip_parsed(s) for s in schema]
    return schema


# ---------------------------------------------------------------- exceptions / outcomes
def pexc(e):
    return {"exc": [c.__name__ for c in type(e).__mro__ if c is not object]}


def outcome(fn, *a, **kw):
    """Run fn; return {"ok": True, "v": <python value>} or {"ok": False, "exc": [...]} plus the raw value/exception."""
    try:
        v = fn(*a, **kw)
    except Exception as e:  # noqa: BLE001 - the outcome of the call under test, whatever it is
        return {"ok": False, "exc": pexc(e)["exc"]}, e
    return {"ok": True}, v


# ---------------------------------------------------------------- self test
def selftest():
    import random
    import struct
    r = random.Random(7)
    vals = [None, True, False, 0, 1, -1, 2 ** 63 - 1, -2 ** 63, 2 ** 200, 0.0, -0.0, 1.5, 5e-324, 1.7976931348623157e308,
            float("inf"), float("-inf"), "", "aé€😀", b"", bytes(range(256)), bytearray(b"ab"), [], [1, [2, "x"]],
            (1, "a"), {}, {"a": 1, "b": {"c": [None]}}, datetime.date(1, 1, 1), datetime.date(9999, 12, 31),
            datetime.time(23, 59, 59, 999999), datetime.datetime(1970, 1, 1, 0, 0, 0, 1),
            datetime.datetime(2020, 2, 29, 12, 0, 0, 5, tzinfo=datetime.timezone(datetime.timedelta(hours=-5, minutes=-30))),
            decimal.Decimal("-0"), decimal.Decimal("12.340"), decimal.Decimal("1E+5"), uuid.UUID(int=2 ** 127 + 12345)]
    for _ in range(300):
        vals.append(struct.unpack("<d", struct.pack("<Q", r.getrandbits(64)))[0])
        vals.append(r.getrandbits(r.randint(0, 80)) * r.choice([1, -1]))
    n = 0
    for v in vals:
        if isinstance(v, float) and v != v:
            assert unpv(pv(v)) != unpv(pv(v))
            continue
        w = unpv(pv(v))
        assert type(w) is type(v) and (w == v), (v, w)
        if isinstance(v, float):
            assert struct.pack("<d", v) == struct.pack("<d", w), (v, w)
        n += 1
    js = [None, True, 1, -5, 2 ** 70, 1.5, "x", [], {}, {"type": "record", "fields": [{"name": "a", "default": None}]}]
    for j in js:
        assert unpj(pj(j)) == j
        n += 1
    return n


if __name__ == "__main__":
    print("proj selftest ok:", selftest())
