"""C09 / C10 / C20: union branch choice, validate vs writers, generate_* (V direction)."""
import io
import random

from . import container, core, gen, proj


# ------------------------------------------------------------------------------------ C10
def outcome_val(fn):
    try:
        return {"ok": True, "v": proj.pv(fn())}
    except Exception as e:  # noqa: BLE001
        return {"ok": False, "exc": proj.pexc(e)["exc"]}


def validate_case(fa, cid, raw, datum, others, strict, tuples, kind):
    import fastavro._write_py as W
    from fastavro.validation import validate
    c = {"id": cid, "op": "validate", "schema": proj.pj(raw), "datum": proj.pv(datum), "strict": strict, "tuples": tuples, "fault": kind or ""}
    c["quiet"] = outcome_val(lambda: validate(datum, raw, raise_errors=False, strict=strict, disable_tuple_notation=not tuples))
    c["loud"] = outcome_val(lambda: validate(datum, raw, raise_errors=True, strict=strict, disable_tuple_notation=not tuples))
    fo = io.BytesIO()
    try:
        fa.schemaless_writer(fo, raw, datum, disable_tuple_notation=not tuples)
        c["sl"] = {"ok": True, "bytes": list(fo.getvalue()), "back": outcome_val(lambda: fa.schemaless_reader(io.BytesIO(fo.getvalue()), raw))}
    except Exception as e:  # noqa: BLE001
        c["sl"] = {"ok": False, "exc": proj.pexc(e)["exc"]}
    for key, kw in (("wstrict", {"strict": True}), ("wsad", {"strict_allow_default": True})):
        fo2 = io.BytesIO()
        try:
            fa.schemaless_writer(fo2, raw, datum, disable_tuple_notation=not tuples, **kw)
            c[key] = {"ok": True, "bytes": list(fo2.getvalue())}
        except Exception as e:  # noqa: BLE001
            c[key] = {"ok": False, "exc": proj.pexc(e)["exc"], "bytes": []}
    # writer-side gate: others, datum, others through Writer(validator=True); a rejected record must leave no byte behind
    out = io.BytesIO()
    w = W.Writer(out, raw, codec="null", sync_interval=10 ** 6, validator=True, sync_marker=bytes(range(16)),
                 options={"disable_tuple_notation": not tuples})
    raised = False
    for r in others:
        w.write(r)
    try:
        w.write(datum)
    except Exception:  # noqa: BLE001
        raised = True
    for r in others:
        w.write(r)
    w.flush()
    data = out.getvalue()
    g = {"raised": raised, "file": list(data), "others": [proj.pv(r) for r in others]}
    g.update({k: v for k, v in container.describe(data).items() if k in ("hs", "inflate")})
    c["gate"] = g
    return c


def run_c10(ctx, fa):
    from . import mcheck
    mcheck.model_check(ctx, "MC_Binary", {"Depth": 1 if ctx.quick() else 2}, ["InvConformsEncodes", "InvStrictImplies", "InvWModeOrder", "InvNormConforms", "InvRoundTrip"], "conforms")
    rnd = ctx.sub_rnd("c10")
    n = 1500 if ctx.quick() else 14000
    cases = []
    tries = 0
    while len(cases) < n and tries < 6 * n:
        tries += 1
        g = gen.Gen(rnd, logical=rnd.random() < 0.25, max_depth=rnd.choice([1, 2, 2, 3]), big=rnd.random() < 0.15)
        g.mapping_views = True
        g.typed_arrays = True
        ir = g.schema()
        raw = g.render(ir)
        try:
            fa.parse_schema(raw)
            others = [g.datum(ir, hints=False) for _ in range(rnd.choice([0, 1, 2]))]
            if rnd.random() < 0.55:
                datum, kind = g.faulty_datum(ir, hints=rnd.random() < 0.4)
            else:
                datum, kind = g.datum(ir, hints=rnd.random() < 0.4), None
        except (gen.NoDatum, RecursionError):
            continue
        except Exception:  # noqa: BLE001 - schema problems are C11's business
            continue
        try:
            proj.pv(datum)
        except Exception:  # noqa: BLE001
            continue
        strict = rnd.random() < 0.4
        tuples = rnd.random() < 0.8
        try:
            c = validate_case(fa, "v%d" % len(cases), raw, datum, others, strict, tuples, kind)
        except Exception as e:  # noqa: BLE001 - the conforming 'others' must be writable; anything else is not this check's business
            continue
        c["nodes"] = gen.count_nodes(ir)
        cases.append(c)
    # typed arrays (array.array): homogeneous in C type, not in conformance - one item out of the 32-bit range at any position
    import array as _array
    for i in range(12 if ctx.quick() else 120):
        items = [rnd.randint(-5, 5) for _ in range(rnd.randint(1, 5))]
        pos = rnd.randrange(len(items) + 1)
        bad = rnd.random() < 0.7
        if bad:
            items.insert(pos, rnd.choice([2 ** 31, -2 ** 31 - 1, 2 ** 40]))
        raw = {"type": "array", "items": "int"} if rnd.random() < 0.5 else \
            {"type": "record", "name": "T", "fields": [{"name": "xs", "type": {"type": "array", "items": "int"}}]}
        datum = _array.array("q", items)
        datum = datum if isinstance(raw, dict) and raw["type"] == "array" else {"xs": datum}
        try:
            c = validate_case(fa, "v%d" % len(cases), raw, datum, [], rnd.random() < 0.4, True, "typed-array-out-of-range" if bad else None)
        except Exception:  # noqa: BLE001
            continue
        c["nodes"] = 2
        cases.append(c)
    ctx.rule = ("seeded schemas (incl. logical types) x conforming data and data made non-conforming by exactly one mutation at a random position (wrong "
                "Python type, out-of-range int, bool for int, wrong fixed size, bytearray for fixed, unknown symbol, non-string map key, missing required "
                "field, wrong hint) x strict x disable_tuple_notation; validate quiet and loud, schemaless writer, Writer(validator=True) with records "
                "before and after; non-trivial = >= 2 schema nodes or a mutation")
    if not ctx.quick():
        from . import p_suite
        p_suite.run(ctx, {"t_validate"}, ("C10.",))
    core.judge_cases(ctx, cases, "validate", ("C10.",), nontrivial_fn=lambda c: c["nodes"] >= 2 or bool(c["fault"]),
                     describe=lambda c: "fault=%s strict=%s tuples=%s schema=%s datum=%s" % (c["fault"], c["strict"], c["tuples"],
                                                                                            repr(proj.unpj(c["schema"]))[:150], _show(c["datum"])))
    faults = {}
    for c in cases:
        faults[c["fault"] or "none"] = faults.get(c["fault"] or "none", 0) + 1
    ctx.extra["faults"] = faults
    for c in cases[:3]:
        ctx.sample({"schema": proj.unpj(c["schema"]), "datum": _show(c["datum"]), "fault": c["fault"], "validate": c["quiet"]})


def _show(pd):
    try:
        return repr(proj.unpv(pd))[:160]
    except Exception:  # noqa: BLE001
        return str(pd)[:160]


# ------------------------------------------------------------------------------------ C09
def union_case(fa, cid, raw, datum, tuples, badhint):
    c = {"id": cid, "op": "union_rt", "schema": proj.pj(raw), "datum": proj.pv(datum), "tuples": tuples, "badhint": badhint}
    try:
        fa.parse_schema(raw)
    except Exception as e:  # noqa: BLE001
        c["perr"] = proj.pexc(e)["exc"]
        return c
    fo = io.BytesIO()
    try:
        fa.schemaless_writer(fo, raw, datum, disable_tuple_notation=not tuples)
        data = fo.getvalue()
        c["write"] = {"ok": True, "bytes": list(data)}
    except Exception as e:  # noqa: BLE001
        c["write"] = {"ok": False, "exc": proj.pexc(e)["exc"]}
        c["named"] = {"ok": False}
        c["rewrite"] = {"ok": False}
        c["named_o"] = {"ok": False}
        c["rewrite_o"] = {"ok": False}
        return c
    try:
        v = fa.schemaless_reader(io.BytesIO(data), raw, return_named_type=True)
        c["named"] = {"ok": True, "v": proj.pv(v)}
        try:
            fo2 = io.BytesIO()
            fa.schemaless_writer(fo2, raw, v)
            c["rewrite"] = {"ok": True, "bytes": list(fo2.getvalue())}
        except Exception as e:  # noqa: BLE001
            c["rewrite"] = {"ok": False, "exc": proj.pexc(e)["exc"]}
    except Exception as e:  # noqa: BLE001
        c["named"] = {"ok": False, "exc": proj.pexc(e)["exc"]}
        c["rewrite"] = {"ok": False}
    try:
        c["named_rro"] = {"ok": True, "v": proj.pv(fa.schemaless_reader(io.BytesIO(data), raw, return_named_type=True, return_record_name_override=True))}
    except Exception as e:  # noqa: BLE001
        c["named_rro"] = {"ok": False, "exc": proj.pexc(e)["exc"]}
    try:
        c["recname"] = {"ok": True, "v": proj.pv(fa.schemaless_reader(io.BytesIO(data), raw, return_record_name=True))}
    except Exception as e:  # noqa: BLE001
        c["recname"] = {"ok": False, "exc": proj.pexc(e)["exc"]}
    try:
        v = fa.schemaless_reader(io.BytesIO(data), raw, return_named_type=True, return_named_type_override=True)
        c["named_o"] = {"ok": True, "v": proj.pv(v)}
        try:
            fo3 = io.BytesIO()
            fa.schemaless_writer(fo3, raw, v)
            c["rewrite_o"] = {"ok": True, "bytes": list(fo3.getvalue())}
        except Exception as e:  # noqa: BLE001
            c["rewrite_o"] = {"ok": False, "exc": proj.pexc(e)["exc"]}
    except Exception as e:  # noqa: BLE001
        c["named_o"] = {"ok": False, "exc": proj.pexc(e)["exc"]}
        c["rewrite_o"] = {"ok": False}
    return c


def has_union(ir, g, seen=None):
    seen = seen or set()
    k = ir["k"]
    if k == "union":
        return True
    if k == "ref":
        if ir["full"] in seen:
            return False
        return has_union(g.defs[ir["full"]], g, seen | {ir["full"]})
    if k == "record":
        return any(has_union(f["type"], g, seen | {ir["full"]}) for f in ir["fields"])
    if k == "array":
        return has_union(ir["items"], g, seen)
    if k == "map":
        return has_union(ir["values"], g, seen)
    return False


def run_c09(ctx, fa):
    from . import mcheck
    mcheck.model_check(ctx, "MC_Binary", {"Depth": 1 if ctx.quick() else 2}, ["InvChooseConforms"], "choose")
    rnd = ctx.sub_rnd("c09")
    n = 1500 if ctx.quick() else 14000
    cases = []
    tries = 0
    while len(cases) < n and tries < 8 * n:
        tries += 1
        g = gen.Gen(rnd, logical=rnd.random() < 0.2, max_depth=rnd.choice([1, 2, 2, 3]), big=False)
        ir = g.schema(top=rnd.choice(["union", "union", "record", "array", "map"]))
        if not has_union(ir, g):
            continue
        raw = g.render(ir)
        tuples = rnd.random() < 0.85
        badhint = False
        try:
            if rnd.random() < 0.12:
                # a hint that names no branch
                g.fault_countdown = None
                d, kind = g.faulty_datum(ir, hints=True)
                if kind != "wrong-hint" or not tuples:
                    continue
                badhint = True
            else:
                d = g.datum(ir, hints=rnd.random() < 0.6 and tuples)
            proj.pv(d)
        except (gen.NoDatum, RecursionError):
            continue
        c = union_case(fa, "u%d" % len(cases), raw, d, tuples, badhint)
        c["nodes"] = gen.count_nodes(ir)
        cases.append(c)
    # directed: a fixed decimal defined once and referred to by name from a union (a Decimal conforms to the reference as to the definition)
    import decimal as _dec
    for i in range(16 if ctx.quick() else 160):
        money = {"type": "fixed", "name": "Money", "size": 8, "logicalType": "decimal", "precision": 12, "scale": 2}
        later = rnd.choice([[], [{"type": "bytes", "logicalType": "decimal", "precision": 20, "scale": 2}], ["string"]])
        raw = {"type": "record", "name": "Acct", "fields": [{"name": "first", "type": money},
                                                            {"name": "u", "type": (["null"] if rnd.random() < 0.6 else []) + ["Money"] + later}]}
        val = _dec.Decimal(rnd.randint(-10 ** 9, 10 ** 9)).scaleb(-2)
        d = {"first": _dec.Decimal("1.25"), "u": val if rnd.random() < 0.8 else ("Money", val)}
        c = union_case(fa, "u%d" % len(cases), raw, d, True, False)
        c["nodes"] = 4
        cases.append(c)
    ctx.rule = ("seeded schemas containing unions (primitive mixes incl. float/double orders, several records/enums/fixed, by-name references, "
                "arrays/maps, logical types, any nesting depth) x conforming data with tuple hints, '-type' hints or none, x disable_tuple_notation, "
                "plus hints naming no branch; the union indices in the bytes are compared with AvroValue!ChooseBranch; values read with "
                "return_named_type=True are compared with NormN and written back; non-trivial = the datum passes a union with >= 2 branches")
    core.judge_cases(ctx, cases, "union", ("C09.",), nontrivial_fn=lambda c: c["nodes"] >= 3,
                     describe=lambda c: "tuples=%s schema=%s datum=%s" % (c["tuples"], repr(proj.unpj(c["schema"]))[:170], _show(c["datum"])))
    for c in cases[:3]:
        ctx.sample({"schema": proj.unpj(c["schema"]), "datum": _show(c["datum"]), "bytes": bytes(c["write"]["bytes"]).hex()[:60] if c.get("write", {}).get("ok") else None})


# ------------------------------------------------------------------------------------ C20
class ScriptedRandom:
    """An adversarial state of the library's random source: every bounded draw returns its lower bound, its upper bound or a seeded value,
    following a script. Off-by-one range errors in the generator need exactly such states to manifest."""

    def __init__(self, seed, script):
        self._r = random.Random(seed)
        self._script = script
        self._i = 0

    def _mode(self):
        m = self._script[self._i % len(self._script)]
        self._i += 1
        return m

    def randint(self, a, b):
        m = self._mode()
        return a if m == "lo" else b if m == "hi" else self._r.randint(a, b)

    def randrange(self, *a):
        return self._r.randrange(*a)

    def random(self):
        m = self._mode()
        return 0.0 if m == "lo" else 0.9999999999999999 if m == "hi" else self._r.random()

    def getrandbits(self, k):
        m = self._mode()
        return 0 if m == "lo" else (1 << k) - 1 if m == "hi" else self._r.getrandbits(k)

    def choices(self, pop, k=1):
        return self._r.choices(pop, k=k)

    def choice(self, seq):
        return self._r.choice(seq)

    def seed(self, *a):
        pass


def generate_case(fa, cid, raw, n, seed, script=None):
    import fastavro.utils as U
    from fastavro.utils import generate_many, generate_one
    from fastavro.validation import validate
    c = {"id": cid, "op": "generate", "schema": proj.pj(raw), "n": n, "seed": seed, "script": script or []}
    if script:
        saved = U.random
        U.random = ScriptedRandom(seed, script)
        try:
            return _generate_case(fa, c, raw, n, seed, generate_many, generate_one, validate)
        finally:
            U.random = saved
    return _generate_case(fa, c, raw, n, seed, generate_many, generate_one, validate)


def _generate_case(fa, c, raw, n, seed, generate_many, generate_one, validate):
    try:
        fa.parse_schema(raw)
    except Exception as e:  # noqa: BLE001
        c["perr"] = proj.pexc(e)["exc"]
        return c
    try:
        random.seed(seed)
        if n == -1:
            vals = [generate_one(raw)]
            c["n"] = 1
        else:
            vals = list(generate_many(raw, n))
        c["res"] = {"ok": True, "values": [proj.pv(v) for v in vals]}
    except RecursionError as e:
        c["res"] = {"ok": False, "exc": proj.pexc(e)["exc"], "scripted": bool(c["script"])}
        return c
    except Exception as e:  # noqa: BLE001
        c["res"] = {"ok": False, "exc": proj.pexc(e)["exc"], "msg": proj.cps(str(e)[:100])}
        return c
    c["valid"] = []
    c["rts"] = []
    for v in vals:
        try:
            c["valid"].append(bool(validate(v, raw, raise_errors=False)))
        except Exception:  # noqa: BLE001
            c["valid"].append(False)
        fo = io.BytesIO()
        try:
            fa.schemaless_writer(fo, raw, v)
            b = fo.getvalue()
            try:
                back = {"ok": True, "v": proj.pv(fa.schemaless_reader(io.BytesIO(b), raw))}
            except Exception as e:  # noqa: BLE001
                back = {"ok": False, "exc": proj.pexc(e)["exc"]}
            fo2 = io.BytesIO()
            try:
                fa.schemaless_writer(fo2, raw, v, strict=True)
                strict = {"ok": True, "bytes": list(fo2.getvalue())}
            except Exception as e:  # noqa: BLE001
                strict = {"ok": False, "exc": proj.pexc(e)["exc"], "bytes": []}
            c["rts"].append({"ok": True, "bytes": list(b), "back": back, "strict": strict})
        except Exception as e:  # noqa: BLE001
            c["rts"].append({"ok": False, "exc": proj.pexc(e)["exc"]})
    try:
        fo = io.BytesIO()
        fa.writer(fo, raw, vals)
        c["filerecs"] = {"ok": True, "recs": [proj.pv(r) for r in fa.reader(io.BytesIO(fo.getvalue()))]}
    except Exception as e:  # noqa: BLE001
        c["filerecs"] = {"ok": False, "exc": proj.pexc(e)["exc"]}
    return c


def run_c20(ctx, fa):
    rnd = ctx.sub_rnd("c20")
    n = 1000 if ctx.quick() else 8000
    cases = []
    while len(cases) < n:
        g = gen.Gen(rnd, logical=rnd.random() < 0.5, max_depth=rnd.choice([1, 2, 2, 3]), big=False, recursive=rnd.random() < 0.7)
        ir = g.schema()
        raw = g.render(ir)
        script = rnd.choice([None, None, ["lo"], ["hi"], ["lo", "hi"], ["mid", "lo", "mid", "hi"], ["hi", "mid", "mid"]])
        c = generate_case(fa, "g%d" % len(cases), raw, rnd.choice([-1, 0, 1, 2, 3, 17 if len(cases) % 9 == 0 else 2]), rnd.randint(0, 2 ** 32), script)
        c["nodes"] = gen.count_nodes(ir)
        c["recursive_through_collection"] = rec_through_collection(ir, g)
        c["through_collection"] = bool(c["recursive_through_collection"])
        c["no_finite_value"] = not has_finite_value(ir, g)
        c["uuid_before_stringlike"] = uuid_before_stringlike(ir, g)
        cases.append(c)
    ctx.rule = ("seeded valid schemas (logical types, by-name and recursive references, every top-level kind) x n in {generate_one, 0, 1, 2, 3, 17} x "
                "random.seed states and scripted adversarial states of the random source (every bounded draw at its lower / upper bound); every value must conform per AvroValue!Conforms, validate, be written by the schemaless and container writers "
                "and read back as Norm; non-trivial = >= 2 schema nodes")
    core.judge_cases(ctx, cases, "generate", ("C20.",), nontrivial_fn=lambda c: c["nodes"] >= 2, sig_fn=sig_c20,
                     describe=lambda c: "n=%s seed=%s schema=%s" % (c["n"], c["seed"], repr(proj.unpj(c["schema"]))[:200]))
    for c in cases[:3]:
        ctx.sample({"schema": proj.unpj(c["schema"]), "n": c["n"], "values": [_show(v) for v in c.get("res", {}).get("values", [])][:2]})


def rec_through_collection(ir, g):
    """Does a record refer to itself (or an enclosing record) through an array or map, with no union in between to stop at null?"""
    def walk(t, stack, via):
        k = t["k"]
        if k == "ref":
            if t["full"] in stack:
                return via
            return False
        if k == "record":
            return any(walk(f["type"], stack + [t["full"]], False) for f in t["fields"])
        if k in ("array", "map"):
            return walk(t["items"] if k == "array" else t["values"], stack, True)
        if k == "union":
            return any(walk(b, stack, via) for b in t["br"])
        return False
    return walk(ir, [], False)


def has_finite_value(ir, g):
    """Least fixed point: can the type be instantiated with a finite value?"""
    ok = set()
    changed = True

    def fin(t, stack):
        k = t["k"]
        if k == "ref":
            return t["full"] in ok
        if k == "record":
            return all(fin(f["type"], stack) for f in t["fields"])
        if k in ("array", "map"):
            return True          # the empty collection (gen_data, though, always emits 10 elements: covered by the recorded finding)
        if k == "union":
            return any(fin(b, stack) for b in t["br"])
        return True
    while changed:
        changed = False
        for full, d in g.defs.items():
            if full not in ok and d["k"] == "record" and all(fin(f["type"], ()) for f in d["fields"]):
                ok.add(full)
                changed = True
            elif full not in ok and d["k"] != "record":
                ok.add(full)
                changed = True
    return fin(ir, ())


def uuid_before_stringlike(ir, g):
    """A union with a string/uuid branch followed by an enum or string branch: a generated symbol/string is written as a 'uuid'."""
    from . import p_resolve
    for _, _, n in p_resolve.positions(ir):
        if n["k"] == "union":
            seen_uuid = False
            for b in n["br"]:
                rb = g.resolve(b)
                if rb["k"] == "prim" and rb["name"] == "string" and rb.get("lt") == "uuid":
                    seen_uuid = True
                elif seen_uuid and (rb["k"] == "enum" or (rb["k"] == "prim" and rb["name"] == "string")):
                    return True
    return False


def sig_c20(c, clause):
    exc = c.get("res", {}).get("exc", [""])
    if clause == "C20.generate":
        return {"exc": exc[0] if exc else "", "recursive_through_collection": bool(c.get("recursive_through_collection"))}
    return {"uuid_before_stringlike": bool(c.get("uuid_before_stringlike"))}
