#!/bin/bash
# tools/seeds.sh "<seeds>" [ids...] : run the quick checks under several seeds; report every non-zero exit
cd "$(dirname "$0")/.."
SEEDS=${1:-"1 2 3"}; shift
IDS=${@:-C01 C02 C03 C04 C05 C06 C07 C08 C09 C10 C11 C12 C13 C14 C15 C16 C17 C18 C19 C20}
./setup.sh >/dev/null || { echo "setup failed"; exit 2; }
for s in $SEEDS; do for id in $IDS; do
  out=$(VERIF_SEED=$s ./check $id --tier ${TIER:-quick} 2>&1); code=$?
  if [ $code -ne 0 ]; then echo "=== seed=$s $id exit=$code"; echo "$out" | grep -E "VIOLATION|MACHINERY" | head -4 | cut -c1-400; fi
  echo "$out" | tail -1 | cut -c1-160
done; done
