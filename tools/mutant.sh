#!/bin/bash
# tools/mutant.sh <patch> <check ids...> : apply a seeded change to /repo, run the quick checks, undo it.
# Prints one line per check: <id> exit=<code> ; always restores /repo.
P=$(readlink -f "$1"); shift
cd /repo || exit 2
if ! git diff --quiet; then echo "/repo has uncommitted changes"; exit 2; fi
if ! git apply --check "$P" 2>/dev/null; then echo "patch does not apply: $P"; exit 3; fi
git apply "$P"
trap 'git -C /repo checkout -- . ' EXIT
for id in "$@"; do
  out=$(cd /verif && ./check $id --tier ${TIER:-quick} 2>&1); code=$?
  echo "$id exit=$code $(echo "$out" | grep -c '^VIOLATION') violations; $(echo "$out" | grep -E '^VIOLATION' | head -2 | cut -c1-220)"
  echo "$out" | tail -1 | cut -c1-300
done
