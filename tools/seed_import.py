#!/usr/bin/env python3
"""tools/seed_import.py <Cxx> <n> [check ids...]
Verify a sub-agent's seeded change (/tmp/mut/<Cxx>/patch<n>.diff + demo<n>.py) in a scratch worktree:
  tests still pass with the patch; the demo fails with it and passes without it.
Then keep it as /verif/seeded/<Cxx>-<n>/ and run the given quick checks against it (tools/seeded_all.py: scratch worktree, /repo untouched)."""
import json, os, shutil, subprocess, sys
prop, n = sys.argv[1], sys.argv[2]
checks = sys.argv[3:] or [prop]
src = "%s/%s" % (os.environ.get("MUT_SRC", "/tmp/mut"), prop)
patch = "%s/patch%s.diff" % (src, n)
demo = "%s/demo%s.py" % (src, n)
wt = "/tmp/sw_%s_%s%s" % (prop, os.environ.get("MUT_TAG", ""), n)
def sh(cmd, **kw):
    return subprocess.run(cmd, shell=True, stdout=subprocess.PIPE, stderr=subprocess.STDOUT, text=True, **kw)
sh("git -C /repo worktree remove --force %s" % wt)
r = sh("git -C /repo worktree add -q --detach %s HEAD" % wt)
meta = {"property": prop, "source": "independent sub-agent given only the property text and a scratch worktree", "ran": []}
try:
    clean_demo = sh("/venv/bin/python %s %s" % (demo, wt), env=dict(os.environ, PYTHONPATH=wt))
    a = sh("git -C %s apply %s" % (wt, patch))
    if a.returncode != 0:
        print("PATCH DOES NOT APPLY to current HEAD:", a.stdout[:300]); sys.exit(3)
    pat_demo = sh("/venv/bin/python %s %s" % (demo, wt), env=dict(os.environ, PYTHONPATH=wt))
    tests = sh("/verif/tools/baseline.py %s" % wt)
    meta["ran"] += ["demo on clean tree: exit %d" % clean_demo.returncode, "demo with patch: exit %d" % pat_demo.returncode,
                    "pinned test-suite with patch: " + tests.stdout.strip().splitlines()[0]]
    ok = clean_demo.returncode == 0 and pat_demo.returncode == 1 and tests.returncode == 0
    print("clean demo exit", clean_demo.returncode, "| patched demo exit", pat_demo.returncode, "| tests:", tests.stdout.strip().splitlines()[0])
    if not ok:
        print("NOT CONFIRMED"); print(pat_demo.stdout[-500:]); sys.exit(4)
finally:
    sh("git -C /repo worktree remove --force %s" % wt)
    shutil.rmtree(wt, ignore_errors=True)
dst = "/verif/seeded/%s-%s%s" % (prop, os.environ.get("MUT_TAG", ""), n)
os.makedirs(dst, exist_ok=True)
shutil.copy(patch, dst + "/patch.diff"); shutil.copy(demo, dst + "/demo.py")
notes = open("%s/notes%s.txt" % (src, n)).read() if os.path.exists("%s/notes%s.txt" % (src, n)) else ""
meta["needs"] = notes.strip()
det = {}
meta["property"] = prop
meta["detected_by"] = checks
json.dump(meta, open(dst + "/meta.json", "w"), indent=1)
sid = "%s-%s%s" % (prop, os.environ.get("MUT_TAG", ""), n)
r = sh("/verif/tools/seeded_all.py %s" % sid)          # scratch worktree + VERIF_OUT: /repo and /verif/evidence stay untouched
print(r.stdout[-1500:])
for line in r.stdout.splitlines():
    if line.startswith(sid + " "):
        res = eval(line[line.index("{"):])
        det = {c: v[0] for c, v in res.items() if isinstance(v, tuple)}
meta["quick_checks_exit_codes"] = det
meta["detected_by"] = sorted(c for c, e in det.items() if e == 1)
meta["ran"].append("tools/seeded_all.py " + sid)
json.dump(meta, open(dst + "/meta.json", "w"), indent=1)
print("DETECTED BY:", meta["detected_by"], "exit codes", det)
