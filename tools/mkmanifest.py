#!/usr/bin/env python3
"""Generate /verif/MANIFEST.json from the table below (kept in one place so it stays valid)."""
import json, os
V = os.path.dirname(os.path.dirname(os.path.abspath(__file__)))
props = [json.loads(l) for l in open(os.path.join(V, "properties.jsonl"))]
TRUST = ("Trusted base: TLC 1.8 + the TLA+ modules under spec/, the mechanical projection harness/proj.py, CPython's json module "
         "(and zlib/bz2/lzma/hashlib where the property involves codecs or digests). Bounded: seeded sampling with boundary pools in V, "
         "small-scope enumeration in M/G; pure-Python (*_py) modules only.")
CLAIMED = {
 "C01": ("V: seeded schemas x data written back to back with schemaless_writer and read back; TLC evaluates the spec on every logged case "
         "(Norm = expected value, partial sums of the spec's encoding lengths = stream positions). The judge is the spec, not fastavro's reader.",
         "TLA+ spec (AvroValue!Norm, AvroBinary!Encode/Decode) + TLC trace validation of logged round trips", "3/C01"),
 "C02": ("V: the bytes left on the stream by schemaless_writer are matched by TLC against AvroBinary!MatchCanon, an independent byte-level "
         "definition (zig-zag varints on limb integers, IEEE fields from float.hex(), UTF-8 from code points, one counted block + 0).",
         "TLA+ spec (AvroBinary!MatchCanon) + TLC trace validation of logged encoder output", "3/C02"),
}
checks = []
for p in props:
    i = p["id"]
    if i not in CLAIMED:
        continue
    text, tech, ref = CLAIMED[i]
    checks.append({
        "property_id": i,
        "quick_cmd": "./check %s --tier quick" % i,
        "thorough_cmd": "./check %s --tier thorough" % i,
        "evidence_file": "/verif/evidence/%s.json" % i,
        "replay_cmd_template": "./check %s --replay {path}" % i,
        "engine": "tla-spec+tlc",
        "level_claimed": {"category": "model_checking", "text": text, "design_ref": "DESIGN.md section " + ref},
        "level_note": TRUST,
        "technique": tech,
    })
na = [{"property_id": p["id"], "reason": "check not built yet in this session (work in progress; see DESIGN.md section 9 build order)"}
      for p in props if p["id"] not in CLAIMED]
m = {
 "version": 1,
 "setup_cmd": "./setup.sh",
 "hooks": {
  "guard": "FASTAVRO_VERIF",
  "enable": "no source hooks are needed so far: checks import /repo's working tree (sys.path) and observe public call boundaries; FASTAVRO_VERIF=1 is reserved for step-level hooks",
  "baseline_off_cmd": "cd /repo && /venv/bin/python -m pytest -ra -q -p no:cacheprovider --timeout=900 --continue-on-collection-errors",
  "source_commits": [],
  "add_only": True
 },
 "engines": [{"name": "tla-spec+tlc", "path": "/verif/spec", "serves_properties": [c["property_id"] for c in checks],
              "kind_free_text": "explicit TLA+ specification of Avro as fastavro promises it (spec/*.tla), checked with TLC; bound to the code by trace validation of logged calls (trace/*.tla, harness/) and by replaying TLC-enumerated cases into the code"}],
 "checks": checks,
 "notes": "See DESIGN.md. Exit codes: 0 held, 1 violation (VIOLATION line), 2 machinery failure. known_findings.json lists genuine defects (open and fixed).",
 "not_applicable": na,
}
json.dump(m, open(os.path.join(V, "MANIFEST.json"), "w"), indent=1)
print("claimed:", [c["property_id"] for c in checks])
