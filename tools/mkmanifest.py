#!/usr/bin/env python3
"""Generate /verif/MANIFEST.json from the table below (kept in one place so it stays valid)."""
import json, os
V = os.path.dirname(os.path.dirname(os.path.abspath(__file__)))
props = [json.loads(l) for l in open(os.path.join(V, "properties.jsonl"))]
TRUST = ("Trusted base: TLC 1.8 + the TLA+ modules under spec/, the mechanical projection harness/proj.py, CPython's json module "
         "(and zlib/bz2/lzma/hashlib where the property involves codecs or digests). Bounded: seeded sampling with boundary pools in V, "
         "small-scope enumeration in M/G; pure-Python (*_py) modules only.")
CLAIMED = {
 "C01": ("M: MC_Binary (TLC, bounded universe of schema x value): RoundTrip, Concat, NormIdempotent. G: every case of that universe replayed into schemaless_writer/reader. V: seeded schemas x data written back to back with schemaless_writer and read back; TLC evaluates the spec on every logged case "
         "(Norm = expected value, partial sums of the spec's encoding lengths = stream positions). The judge is the spec, not fastavro's reader.",
         "TLA+ spec (AvroValue!Norm, AvroBinary!Encode/Decode) + TLC trace validation of logged round trips", "3/C01"),
 "C02": ("M: MC_Binary: Encode satisfies MatchCanon, canonical layout unique. G: writer bytes = spec bytes on the universe. V (+ every schemaless_writer call of the pinned test-suite in the thorough tier): the bytes left on the stream by schemaless_writer are matched by TLC against AvroBinary!MatchCanon, an independent byte-level "
         "definition (zig-zag varints on limb integers, IEEE fields from float.hex(), UTF-8 from code points, one counted block + 0).",
         "TLA+ spec (AvroBinary!MatchCanon) + TLC trace validation of logged encoder output", "3/C02"),
 "C03": ("M: MC_Binary PartitionInvariance / PrefixFree. G: TLC turns seeded (schema, datum, choice stream) cases into specification-valid layouts (AvroLayout!EncodeLayout: any block partition, "
         "positive or negative-count form), checks partition invariance on the spec for each, and prints bytes, expected value, index positions and "
         "out-of-range index encodings; these are replayed into schemaless_reader (value returned and skipped, indices patched, every proper prefix).",
         "TLA+ spec (AvroLayout, AvroBinary!Decode) + TLC-generated cases replayed into the implementation", "3/C03"),
 "C04": ("V: files written by fastavro.writer under a seeded product of schema kind x records x codec x sync_interval x level x metadata x sync marker x "
         "raw/parsed x stream kind; TLC judges the records yielded by fastavro.reader against Norm, the reported schema by canonical tree, codec and "
         "metadata against the arguments and the header found by the spec's own container parser; wrapper streams log the I/O methods used.",
         "TLA+ spec (AvroFile!ParseFile, AvroCanon, AvroValue!Norm) + TLC trace validation of logged write/read sessions", "3/C04"),
 "C05": ("M: MC_Writer InvFile. G: AvroFileGen (spec as independent writer: any block partition, empty blocks, chunked header map, codec key absent) -> files offered to reader/block_reader; Java fixture files. V: every file written by fastavro is parsed by AvroFile!ParseFile (magic, metadata map, sync, blocks; payloads inflated by the standard library "
         "only) and must yield the records; block_reader offsets/sizes/counts must equal the spec parser's and tile the file.",
         "TLA+ spec (AvroFile!ParseFile, Tiles) + TLC trace validation of logged files and block listings", "3/C05"),
 "C06": ("M: MC_Writer InvCutSafe/InvSyncSafe on every file reachable by the writer model. V: real container files (all importable codecs, 0-6 blocks, blocks with >= 64 records) cut at every byte offset and with every sync marker "
         "altered at every byte position (bit flip / zero / random), read with reader and block_reader; the whole outcome table of a file is judged by "
         "TLC against the block structure found by AvroFile!ParseFile (yielded = prefix of written; normal end only at a block boundary; corrupted "
         "marker raises at that block); plus every proper prefix of spec-generated schemaless layouts.",
         "TLA+ spec (AvroFile!ParseFile, Boundaries; AvroLayout) + fault enumeration judged by TLC", "3/C06"),
 "C07": ("M: MC_Writer (every history <= MaxOps, abstract and fastavro blocking policy, byte-level stream): ReadBack, Durable, InvFlushed. V: every history up to a bound over {write small/large/zero-byte/failing-early/failing-late, flush, write_block (donor inspected or not, Block "
         "objects reused), reopen for append with other schema/codec/metadata/sync} plus seeded random histories is run on fastavro.write.Writer; the "
         "stream bytes after every call are validated by TLC against the AvroWriter state machine (blocks pinned by AvroFile!ParseFile of the logged "
         "stream, pending block and dump decisions inferred), ReadBack/Durable evaluated in every state, header bytes immutable.",
         "TLA+ state machine (AvroWriter) + TLC trace validation with inferred hidden state", "3/C07"),
 "C11": ("V: valid generated schemas and single ill-forming mutations of every kind the property lists are given to parse_schema; TLC runs the spec's "
         "own parser (AvroSchema!Parse: namespace rules, reference resolution, redefinition, enum, default-type and decimal checks) on the same raw tree "
         "and requires accept/reject to agree, the set of defined full names to be equal, and the returned schema to re-parse to the identical tree.",
         "TLA+ spec (AvroSchema!Parse) + TLC trace validation of logged parse outcomes", "3/C11"),
 "C13": ("V: fastavro's canonical text is compared with AvroCanon!CanonText of the spec-parsed tree, re-applied to its own output, compared across "
         "cosmetic rewrites (whose spec trees TLC first proves equal), and data written under the original are decoded under the canonical schema.",
         "TLA+ spec (AvroCanon) + TLC trace validation", "3/C13"),
 "C14": ("M: MC_Rabin (table step = 8 serial steps on 256 bytes x 66 states; complete by GF(2) linearity). V: CRC-64-AVRO results are compared with Rabin!FP written in TLA+ from the specification (bit-serial definition and table form, equivalence "
         "model-checked); named digests are compared with hashlib (uninterpreted in the spec); unknown names must raise ValueError.",
         "TLA+ spec (Rabin) + TLC trace validation; hashlib as oracle for uninterpreted digests", "3/C14"),
 "C16": ("M: MC_Logical (calendar inverse/successor/month lengths on day windows; all 3.65 M days in the thorough tier). V: boundary-heavy logical values (dates 1..9999, times, aware/naive datetimes with offsets around the epoch, UUIDs, decimals for bytes and "
         "fixed with every edge incl. -0, too many digits, values not fitting) are written and read back; TLC compares the stored bytes with "
         "AvroLogical!Prep (civil-date arithmetic, BigNat epoch microseconds, two's complement) and the value read with Unprep; values the schema "
         "cannot represent must raise.",
         "TLA+ spec (AvroLogical) + TLC trace validation", "3/C16"),
 "C09": ("V: data written to union-bearing schemas (hints of both kinds, none, bad hints, tuple notation on/off); TLC compares the union indices in the "
         "bytes with AvroValue!ChooseBranch (hint -> named branch or error; first conforming non-record branch with the float->double deferral; "
         "record sharing most field names), the value read with return_named_type=True with NormN, and the bytes obtained by writing that value back.",
         "TLA+ spec (AvroValue!ChooseBranch, NormN, AvroBinary!Encode) + TLC trace validation", "3/C09"),
 "C10": ("V: conforming data and single-fault mutations at random positions; TLC evaluates AvroValue!Conforms (strict / tuple options) and requires "
         "validate()==Conforms, ValidationError exactly when false, accepted data to encode per MatchCanon and round-trip to Norm, and a "
         "Writer(validator=True) to leave a file (parsed by AvroFile!ParseFile) that contains exactly the other records when the datum is rejected.",
         "TLA+ spec (AvroValue!Conforms, AvroFile!ParseFile) + TLC trace validation", "3/C10"),
 "C20": ("V: generate_one/generate_many on generated schemas (logical, by-name, recursive) under many random.seed states; TLC requires the count, "
         "Conforms for every value, writability through both writers and equality of what is read back with Norm where the spec defines it.",
         "TLA+ spec (AvroValue!Conforms/Norm) + TLC trace validation", "3/C20"),
 "C08": ("V: writer schemas x readers derived by 0-3 compatible/incompatible evolution steps at random positions (incl. definitions moved between "
         "inline and by-reference spellings) x data; schemaless_reader(fo, w, r) and reader(fo, reader_schema=r); TLC evaluates AvroResolve!Resolve "
         "(written clause by clause from the specification's resolution rules) on the logged bytes and requires the same value / a "
         "SchemaResolutionError exactly when the rules give no result for the datum at hand.",
         "TLA+ spec (AvroResolve) + TLC trace validation", "3/C08"),
 "C15": ("V: the text written by json_writer is split into documents, parsed by the standard json module and compared by TLC with AvroJson!JsonEnc "
         "(union wrapping with full names, ISO-8859-1 bytes, symbols, objects/arrays; numbers by value); json_reader's result on that text is compared "
         "with Norm (= what the binary decode returns); defaulted top-level keys are deleted from the text and must come back as the schema defaults.",
         "TLA+ spec (AvroJson, AvroValue!Norm) + TLC trace validation", "3/C15"),
 "C19": ("V: generated dependency graphs are split into one file per named type (qualified and namespace-relative references, repeated use, several "
         "namespaces), optionally with one file removed; TLC parses the top schema against the repository with AvroSchema!ParseRepo (definition inlined "
         "at first use) and compares the canonical text, the re-parsed result and the bytes of data written under load_schema's result, the same for "
         "load_schema_ordered, and the type named by the error for a missing file.",
         "TLA+ spec (AvroSchema!ParseRepo, AvroCanon) + TLC trace validation", "3/C19"),
 "C12": ("V: each generated schema is used raw, parsed and piecewise-parsed (a random non-empty subset of its named types parsed separately into a "
         "shared dictionary and referred to by name) for schemaless/container/JSON write and read, validate, canonical form and generate_many under a "
         "fixed seed; TLC compares every result with the spec value of the monolithic schema (Encode, Norm, JsonEnc, CanonText) and parses the "
         "container header on its own (AvroFile!ParseFile).",
         "TLA+ spec (AvroSchema, AvroBinary, AvroJson, AvroCanon, AvroFile) + TLC trace validation", "3/C12"),
 "C17": ("V: every history of length 2 over an alphabet of 39 concrete public calls chosen to collide (same type names defined differently, one enum name with permuted symbols, reused "
         "parsed-schema objects, calls failing midway, decimals of different precision, JSON defaults, generate, load, resolution, interleaved readers) "
         "plus random histories of length 3-6, each in a freshly imported library; TLC compares each call's projected result with the same call made "
         "first in a fresh library and the projected arguments before/after.",
         "session histories enumerated up to a bound, judged by TLC (trace validation against 'result = f(arguments)')", "3/C17"),
 "C18": ("Fault/schedule enumeration: footprints of shared-state writes are recorded per operation under sys.settrace and given to the Threads model "
         "(TLC) which proposes conflicting schedules; those and every single pre-emption point (library-line granularity) of 16 ordered operation "
         "pairs are replayed on the real code by a deterministic two-thread scheduler and compared with the sequential results.",
         "TLA+ Threads model over recorded footprints + deterministic schedule replay", "3/C18"),
}
checks = []
for p in props:
    i = p["id"]
    if i not in CLAIMED:
        continue
    text, tech, ref = CLAIMED[i]
    checks.append({
        "property_id": i,
        "quick_cmd": "./check %s --tier quick" % i,
        "thorough_cmd": "./check %s --tier thorough" % i,
        "evidence_file": "/verif/evidence/%s.json" % i,
        "replay_cmd_template": "./check %s --replay {path}" % i,
        "engine": "tla-spec+tlc",
        "level_claimed": {"category": "model_checking", "text": text, "design_ref": "DESIGN.md section " + ref + "; as built: 10.2; later additions: 11.1"},
        "level_note": TRUST,
        "technique": tech,
    })
na = [{"property_id": p["id"], "reason": "check not built yet in this session (work in progress; see DESIGN.md section 9 build order)"}
      for p in props if p["id"] not in CLAIMED]
m = {
 "version": 1,
 "setup_cmd": "./setup.sh",
 "hooks": {
  "guard": "FASTAVRO_VERIF",
  "enable": "no source hooks are needed so far: checks import /repo's working tree (sys.path) and observe public call boundaries; FASTAVRO_VERIF=1 is reserved for step-level hooks",
  "baseline_off_cmd": "cd /repo && /venv/bin/python -m pytest -ra -q -p no:cacheprovider --timeout=900 --continue-on-collection-errors",
  "source_commits": [],
  "add_only": True
 },
 "engines": [{"name": "tla-spec+tlc", "path": "/verif/spec", "serves_properties": [c["property_id"] for c in checks],
              "kind_free_text": "explicit TLA+ specification of Avro as fastavro promises it (spec/*.tla), checked with TLC; bound to the code by trace validation of logged calls (trace/*.tla, harness/) and by replaying TLC-enumerated cases into the code"}],
 "checks": checks,
 "notes": "See DESIGN.md. Exit codes: 0 held, 1 violation (VIOLATION line), 2 machinery failure. known_findings.json lists genuine defects (open and fixed).",
 "not_applicable": na,
}
json.dump(m, open(os.path.join(V, "MANIFEST.json"), "w"), indent=1)
print("claimed:", [c["property_id"] for c in checks])
