#!/venv/bin/python
"""Run the repository's pinned test-suite (guard off) and compare with /root/.vp/BASELINE.json stable_pass."""
import json, os, subprocess, sys, tempfile
import xml.etree.ElementTree as ET
repo = sys.argv[1] if len(sys.argv) > 1 else "/repo"
base = json.load(open("/root/.vp/BASELINE.json"))
want = set(base["stable_pass"])
with tempfile.TemporaryDirectory() as d:
    x = os.path.join(d, "j.xml")
    env = dict(os.environ); env.pop("FASTAVRO_VERIF", None)
    subprocess.run(["/venv/bin/python", "-m", "pytest", "-ra", "-q", "-p", "no:cacheprovider", "--timeout=900",
                    "--continue-on-collection-errors", "--junitxml=" + x], cwd=repo, env=env, stdout=subprocess.DEVNULL, stderr=subprocess.DEVNULL)
    passed = set()
    for tc in ET.parse(x).getroot().iter("testcase"):
        if not any(ch.tag in ("failure", "error", "skipped") for ch in tc):
            passed.add(tc.get("classname") + "::" + tc.get("name"))
missing = sorted(want - passed)
print("stable_pass=%d passed_now=%d missing=%d" % (len(want), len(passed), len(missing)))
for m in missing[:20]: print("  MISSING", m)
sys.exit(1 if missing else 0)
