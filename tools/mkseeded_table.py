#!/usr/bin/env python3
"""tools/mkseeded_table.py: rewrite the seeded-changes table of DESIGN.md (between the SEEDED-TABLE markers) from seeded/*/meta.json and
seeded/RESULTS.json (written by tools/seeded_all.py)."""
import json, os, re
V = "/verif"
res = json.load(open(V + "/seeded/RESULTS.json")) if os.path.exists(V + "/seeded/RESULTS.json") else {}
rows = ["| seeded | own check (exit, violations) | other checks that also alarm | what it needs to manifest (agent's notes, abridged) |", "|---|---|---|---|"]
n = own = 0
for sid in sorted(x for x in os.listdir(V + "/seeded") if os.path.exists(V + "/seeded/%s/patch.diff" % x)):
    m = json.load(open(V + "/seeded/%s/meta.json" % sid))
    r = res.get(sid, {})
    prop = r.get("property") or m.get("property") or sid[:3]
    ec, vi = r.get("exit_codes", {}), r.get("violations", {})
    n += 1
    own += 1 if r.get("detected_by_own_check") else 0
    others = sorted(set(c for c in m.get("detected_by", []) if c != prop) | set(c for c, e in ec.items() if e == 1 and c != prop))
    needs = " ".join(m.get("needs", "").split()).replace("|", "/")[:230]
    rows.append("| %s | %s | %s | %s |" % (sid, "%s: exit %s, %s" % (prop, ec.get(prop, "?"), vi.get(prop, "?")) if r else "(not run)", ", ".join(others), needs))
rows.append("")
rows.append("%d seeded changes; %d detected by the quick check of their own property in the last recorded run." % (n, own))
s = open(V + "/DESIGN.md").read()
s = re.sub(r"<!-- SEEDED-TABLE-BEGIN -->.*<!-- SEEDED-TABLE-END -->", "<!-- SEEDED-TABLE-BEGIN -->\n" + "\n".join(rows).replace("\\", "\\\\") + "\n<!-- SEEDED-TABLE-END -->", s, flags=re.S)
open(V + "/DESIGN.md", "w").write(s)
print("%d rows, %d own-detected" % (n, own))
