#!/bin/bash
# tools/try_patch.sh <patch.diff | -> <check ids...> : apply a patch (or, with "-", the edits already made in scratch worktree $WT) in a scratch
# worktree and run the quick checks against it with VERIF_OUT in /tmp; /repo and /verif/evidence stay untouched.
P=$1; shift
WT=${WT:-/tmp/tp_$$}; OUT=/tmp/tpo_$$
if [ "$P" != "-" ]; then
  git -C /repo worktree add -q --detach $WT HEAD || exit 2
  git -C $WT apply "$(readlink -f $P)" || { git -C /repo worktree remove --force $WT; exit 3; }
fi
for id in "$@"; do
  out=$(cd /verif && VERIF_OUT=$OUT ./check $id --tier ${TIER:-quick} --repo $WT 2>&1); code=$?
  echo "$id exit=$code $(echo "$out" | grep -c '^VIOLATION') violations; $(echo "$out" | grep -E '^VIOLATION' | head -2 | cut -c1-260)"
  echo "$out" | tail -1 | cut -c1-300
done
git -C /repo worktree remove --force $WT; rm -rf $OUT $WT; git -C /repo worktree prune
