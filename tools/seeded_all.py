#!/usr/bin/env python3
"""tools/seeded_all.py [-j N] [ids...]: run every seeded change under /verif/seeded against the quick check of its property.
Each change is applied in its own scratch worktree (/tmp/mw_<id>), the check runs with --repo on it and VERIF_OUT in /tmp/mo_<id>,
both removed afterwards; /repo and /verif/evidence are never touched.  Prints one line per change and a summary; exit 1 if one is missed."""
import json, os, shutil, subprocess, sys
from concurrent.futures import ThreadPoolExecutor
SEEDED = "/verif/seeded"


def sh(cmd, **kw):
    return subprocess.run(cmd, shell=True, stdout=subprocess.PIPE, stderr=subprocess.STDOUT, text=True, **kw)


def one(sid):
    d = os.path.join(SEEDED, sid)
    meta = json.load(open(os.path.join(d, "meta.json")))
    prop = meta.get("property") or sid.split("-")[0]
    checks = [prop] + [c for c in meta.get("detected_by", []) if c != prop]
    wt, out = "/tmp/mw_" + sid, "/tmp/mo_" + sid
    sh("git -C /repo worktree remove --force %s" % wt)
    shutil.rmtree(wt, ignore_errors=True)
    r = sh("git -C /repo worktree add -q --detach %s HEAD" % wt)
    res = {}
    try:
        a = sh("git -C %s apply %s/patch.diff" % (wt, d))
        if a.returncode != 0:
            return sid, prop, {"apply": a.stdout.strip()[:200]}
        for c in checks:
            p = sh("./check %s --tier %s --repo %s" % (c, os.environ.get("TIER", "quick"), wt), cwd="/verif", env=dict(os.environ, VERIF_OUT=out))
            res[c] = (p.returncode, sum(1 for l in p.stdout.splitlines() if l.startswith("VIOLATION")))
            if c == prop and p.returncode == 1:
                break
    finally:
        sh("git -C /repo worktree remove --force %s" % wt)
        shutil.rmtree(wt, ignore_errors=True)
        shutil.rmtree(out, ignore_errors=True)
    return sid, prop, res


def main():
    args = sys.argv[1:]
    j = 3
    if args[:1] == ["-j"]:
        j = int(args[1]); args = args[2:]
    ids = args or sorted(x for x in os.listdir(SEEDED) if os.path.exists(os.path.join(SEEDED, x, "patch.diff")))
    missed = []
    respath = os.path.join(SEEDED, "RESULTS.json")
    results = json.load(open(respath)) if os.path.exists(respath) else {}
    head = sh("git -C /repo log --format=%h -1").stdout.strip()
    vhead = sh("git -C /verif log --format=%h -1").stdout.strip()
    with ThreadPoolExecutor(max_workers=j) as ex:
        for sid, prop, res in ex.map(one, ids):
            own = res.get(prop, (None, 0))[0] == 1
            results[sid] = {"property": prop, "repo_head": head, "verif_head_before_run": vhead, "tier": os.environ.get("TIER", "quick"),
                            "exit_codes": {c: v[0] for c, v in res.items() if isinstance(v, tuple)},
                            "violations": {c: v[1] for c, v in res.items() if isinstance(v, tuple)}, "detected_by_own_check": own}
            anyc = any(v[0] == 1 for v in res.values() if isinstance(v, tuple))
            print("%-10s %-4s %s %s" % (sid, prop, "DETECTED" if own else ("detected-by-other" if anyc else "MISSED"), res), flush=True)
            if not own:
                missed.append(sid)
    sh("git -C /repo worktree prune")
    json.dump(results, open(respath, "w"), indent=1, sort_keys=True)
    print("changes=%d detected-by-own-check=%d not=%s" % (len(ids), len(ids) - len(missed), missed))
    return 1 if missed else 0


sys.exit(main())
