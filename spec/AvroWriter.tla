----------------------------- MODULE AvroWriter -----------------------------
(* The container writer as a state machine (C07, C04).  A state is a record  *)
(*   [blocks    : sequence of blocks already on the stream (each a sequence  *)
(*                of record values),                                         *)
(*    pending   : records accepted but not yet in a block,                   *)
(*    submitted : history variable - every record successfully submitted,    *)
(*    flushed   : the last operation was a flush (or nothing happened since)]*)
(* Actions are predicates over (s, s2) so that the very same definitions are *)
(* used by the model checker (mc/MC_Writer.tla: every history) and by trace  *)
(* validation (trace/JWriter.tla: the logged stream pins s2.blocks, TLC      *)
(* infers pending and whether a write dumped).                               *)
(* The blocking policy is deliberately left open: a write may or may not     *)
(* emit a block (any sync_interval semantics satisfies the properties).      *)
EXTENDS Naturals, Sequences, SequencesExt, AvroValue

SeqEq(a, b) == Len(a) = Len(b) /\ \A i \in 1..Len(a) : VEq(a[i], b[i])
BlocksEq(a, b) == Len(a) = Len(b) /\ \A i \in 1..Len(a) : SeqEq(a[i], b[i])
Flat(blocks) == FoldLeft(LAMBDA acc, b : acc \o b, <<>>, blocks)

WInit == [blocks |-> <<>>, pending |-> <<>>, submitted |-> <<>>, flushed |-> FALSE]

\* dump: the pending records become a block (only if there are any)
Dumped(s) == IF s.pending = <<>> THEN s.blocks ELSE Append(s.blocks, s.pending)

Write(s, s2, r) ==
  /\ SeqEq(s2.submitted, Append(s.submitted, r))
  /\ s2.flushed = FALSE
  /\ \/ BlocksEq(s2.blocks, s.blocks) /\ SeqEq(s2.pending, Append(s.pending, r))
     \/ BlocksEq(s2.blocks, Append(s.blocks, Append(s.pending, r))) /\ s2.pending = <<>>

\* a write that raises contributes nothing: neither to the stream nor to the pending block
WriteFail(s, s2) ==
  /\ BlocksEq(s2.blocks, s.blocks) /\ SeqEq(s2.pending, s.pending)
  /\ SeqEq(s2.submitted, s.submitted) /\ s2.flushed = s.flushed

Flush(s, s2) ==
  /\ BlocksEq(s2.blocks, Dumped(s)) /\ s2.pending = <<>>
  /\ SeqEq(s2.submitted, s.submitted) /\ s2.flushed = TRUE

\* copy a whole block (records rs) from a donor file: pending records go first
WriteBlock(s, s2, rs) ==
  /\ BlocksEq(s2.blocks, Append(Dumped(s), rs)) /\ s2.pending = <<>>
  /\ SeqEq(s2.submitted, s.submitted \o rs) /\ s2.flushed = FALSE

\* close (flush) and re-open the same stream for appending, whatever arguments are given
Reopen(s, s2) ==
  /\ s.pending = <<>>
  /\ BlocksEq(s2.blocks, s.blocks) /\ s2.pending = <<>> /\ SeqEq(s2.submitted, s.submitted) /\ s2.flushed = s.flushed

\* ---- properties ---------------------------------------------------------------------
\* after each flush the stream reads back as exactly the records submitted so far, in order
ReadBack(s) == s.flushed => SeqEq(Flat(s.blocks), s.submitted)
\* stronger, in every state: nothing is lost, duplicated or reordered between stream and pending block
Durable(s) == SeqEq(Flat(s.blocks) \o s.pending, s.submitted)
=============================================================================
