------------------------------- MODULE Utf8 -------------------------------
(* Unicode scalar values <-> UTF-8 byte sequences (RFC 3629), and the       *)
(* ISO-8859-1 map used by the Avro JSON encoding of bytes.                  *)
EXTENDS Naturals, Sequences, SequencesExt

IsScalar(c) == (c >= 0 /\ c <= 55295) \/ (c >= 57344 /\ c <= 1114111)
AllScalar(cps) == \A i \in 1..Len(cps) : IsScalar(cps[i])

Utf8One(c) ==
  IF c < 128 THEN <<c>>
  ELSE IF c < 2048 THEN << 192 + (c \div 64), 128 + (c % 64) >>
  ELSE IF c < 65536 THEN << 224 + (c \div 4096), 128 + ((c \div 64) % 64), 128 + (c % 64) >>
  ELSE << 240 + (c \div 262144), 128 + ((c \div 4096) % 64), 128 + ((c \div 64) % 64), 128 + (c % 64) >>

\* defined for sequences of scalar values
Utf8Enc(cps) == FoldLeft(LAMBDA acc, c : acc \o Utf8One(c), <<>>, cps)
Utf8Len(cps) == FoldLeft(LAMBDA acc, c : acc + (IF c < 128 THEN 1 ELSE IF c < 2048 THEN 2 ELSE IF c < 65536 THEN 3 ELSE 4), 0, cps)

IsCont(b) == b >= 128 /\ b <= 191

\* strict decoder: [ok |-> BOOLEAN, cps |-> ...]; rejects overlong forms, surrogates, > U+10FFFF, truncation.
\* Written as a fold over the bytes (a small state machine), so that long strings need no deep recursion.
\* state: need = continuation bytes still expected, acc = value so far, lo = smallest legal value of this form
Utf8Step(st, b) ==
  IF ~st.ok THEN st
  ELSE IF st.need = 0 THEN
       IF b < 128 THEN [st EXCEPT !.cps = Append(@, b)]
       ELSE IF b >= 194 /\ b <= 223 THEN [st EXCEPT !.need = 1, !.acc = b - 192, !.lo = 128]
       ELSE IF b >= 224 /\ b <= 239 THEN [st EXCEPT !.need = 2, !.acc = b - 224, !.lo = 2048]
       ELSE IF b >= 240 /\ b <= 244 THEN [st EXCEPT !.need = 3, !.acc = b - 240, !.lo = 65536]
       ELSE [st EXCEPT !.ok = FALSE]
  ELSE IF ~IsCont(b) THEN [st EXCEPT !.ok = FALSE]
  ELSE LET c == st.acc * 64 + (b - 128) IN
       IF st.need > 1 THEN [st EXCEPT !.need = @ - 1, !.acc = c]
       ELSE IF c >= st.lo /\ IsScalar(c) THEN [st EXCEPT !.need = 0, !.acc = 0, !.cps = Append(@, c)]
       ELSE [st EXCEPT !.ok = FALSE]
Utf8Dec(bs) ==
  LET r == FoldLeft(Utf8Step, [ok |-> TRUE, need |-> 0, acc |-> 0, lo |-> 0, cps |-> <<>>], bs)
  IN [ok |-> r.ok /\ r.need = 0, cps |-> r.cps]

\* ISO-8859-1: byte value = code point
Latin1OfBytes(bs) == bs
IsLatin1(cps) == \A i \in 1..Len(cps) : cps[i] >= 0 /\ cps[i] <= 255
=============================================================================
