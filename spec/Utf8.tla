------------------------------- MODULE Utf8 -------------------------------
(* Unicode scalar values <-> UTF-8 byte sequences (RFC 3629), and the       *)
(* ISO-8859-1 map used by the Avro JSON encoding of bytes.                  *)
EXTENDS Naturals, Sequences, SequencesExt

IsScalar(c) == (c >= 0 /\ c <= 55295) \/ (c >= 57344 /\ c <= 1114111)
AllScalar(cps) == \A i \in 1..Len(cps) : IsScalar(cps[i])

Utf8One(c) ==
  IF c < 128 THEN <<c>>
  ELSE IF c < 2048 THEN << 192 + (c \div 64), 128 + (c % 64) >>
  ELSE IF c < 65536 THEN << 224 + (c \div 4096), 128 + ((c \div 64) % 64), 128 + (c % 64) >>
  ELSE << 240 + (c \div 262144), 128 + ((c \div 4096) % 64), 128 + ((c \div 64) % 64), 128 + (c % 64) >>

\* defined for sequences of scalar values
Utf8Enc(cps) == FoldLeft(LAMBDA acc, c : acc \o Utf8One(c), <<>>, cps)
Utf8Len(cps) == FoldLeft(LAMBDA acc, c : acc + (IF c < 128 THEN 1 ELSE IF c < 2048 THEN 2 ELSE IF c < 65536 THEN 3 ELSE 4), 0, cps)

IsCont(b) == b >= 128 /\ b <= 191

\* strict decoder: [ok |-> BOOLEAN, cps |-> ...]; rejects overlong forms, surrogates, > U+10FFFF, truncation
RECURSIVE Utf8DecFrom(_, _, _)
Utf8DecFrom(bs, i, acc) ==
  IF i > Len(bs) THEN [ok |-> TRUE, cps |-> acc]
  ELSE LET b == bs[i]
           n == Len(bs)
           bad == [ok |-> FALSE, cps |-> acc]
       IN IF b < 128 THEN Utf8DecFrom(bs, i + 1, Append(acc, b))
          ELSE IF b >= 194 /\ b <= 223 THEN
               IF i + 1 <= n /\ IsCont(bs[i+1])
               THEN Utf8DecFrom(bs, i + 2, Append(acc, (b - 192) * 64 + (bs[i+1] - 128)))
               ELSE bad
          ELSE IF b >= 224 /\ b <= 239 THEN
               IF i + 2 <= n /\ IsCont(bs[i+1]) /\ IsCont(bs[i+2])
               THEN LET c == (b - 224) * 4096 + (bs[i+1] - 128) * 64 + (bs[i+2] - 128) IN
                    IF c >= 2048 /\ IsScalar(c) THEN Utf8DecFrom(bs, i + 3, Append(acc, c)) ELSE bad
               ELSE bad
          ELSE IF b >= 240 /\ b <= 244 THEN
               IF i + 3 <= n /\ IsCont(bs[i+1]) /\ IsCont(bs[i+2]) /\ IsCont(bs[i+3])
               THEN LET c == (b - 240) * 262144 + (bs[i+1] - 128) * 4096 + (bs[i+2] - 128) * 64 + (bs[i+3] - 128) IN
                    IF c >= 65536 /\ c <= 1114111 THEN Utf8DecFrom(bs, i + 4, Append(acc, c)) ELSE bad
               ELSE bad
          ELSE bad
Utf8Dec(bs) == Utf8DecFrom(bs, 1, <<>>)

\* ISO-8859-1: byte value = code point
Latin1OfBytes(bs) == bs
IsLatin1(cps) == \A i \in 1..Len(cps) : cps[i] >= 0 /\ cps[i] <= 255
=============================================================================
