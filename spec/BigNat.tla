------------------------------ MODULE BigNat ------------------------------
(* Naturals as little-endian base-128 limb sequences, normalised (no        *)
(* most-significant zero limb; 0 = <<>>).  Integers are [neg, mag].         *)
(* TLC integers are 32-bit, so every quantity that may exceed 2^31 - 1      *)
(* (Avro long, timestamps, decimals, IEEE mantissas) lives here.            *)
EXTENDS Naturals, Integers, Sequences, SequencesExt

LB == 128

\* ---- normalisation ------------------------------------------------------
RECURSIVE NNorm(_)
NNorm(a) == IF a = <<>> THEN <<>>
            ELSE IF a[Len(a)] = 0 THEN NNorm(SubSeq(a, 1, Len(a) - 1)) ELSE a

IsNat(a) == /\ \A i \in 1..Len(a) : a[i] \in 0..127
            /\ (a # <<>> => a[Len(a)] # 0)

\* ---- small <-> big ------------------------------------------------------
RECURSIVE NFromNat(_)
NFromNat(n) == IF n = 0 THEN <<>> ELSE <<n % LB>> \o NFromNat(n \div LB)

\* value of a limb sequence known to be < 2^31
RECURSIVE NToNatFrom(_, _)
NToNatFrom(a, i) == IF i > Len(a) THEN 0 ELSE a[i] + LB * NToNatFrom(a, i + 1)
NToNat(a) == NToNatFrom(a, 1)

\* fits a TLC non-negative integer with room to spare (< 2^28)
NIsSmall(a) == Len(a) <= 4

\* ---- comparison ---------------------------------------------------------
RECURSIVE NCmpFrom(_, _, _)
NCmpFrom(a, b, i) == IF i = 0 THEN 0
                     ELSE IF a[i] < b[i] THEN -1
                     ELSE IF a[i] > b[i] THEN 1
                     ELSE NCmpFrom(a, b, i - 1)
NCmp(a, b) == IF Len(a) < Len(b) THEN -1
              ELSE IF Len(a) > Len(b) THEN 1
              ELSE NCmpFrom(a, b, Len(a))
NLe(a, b) == NCmp(a, b) <= 0
NLt(a, b) == NCmp(a, b) < 0

\* ---- addition / subtraction --------------------------------------------
Limb(a, i) == IF i <= Len(a) THEN a[i] ELSE 0
Max2(x, y) == IF x > y THEN x ELSE y

RECURSIVE NAddFrom(_, _, _, _)
NAddFrom(a, b, i, c) ==
  IF i > Max2(Len(a), Len(b)) THEN (IF c = 0 THEN <<>> ELSE <<c>>)
  ELSE LET x == Limb(a, i) + Limb(b, i) + c IN <<x % LB>> \o NAddFrom(a, b, i + 1, x \div LB)
NAdd(a, b) == NAddFrom(a, b, 1, 0)

\* a - b for a >= b
RECURSIVE NSubFrom(_, _, _, _)
NSubFrom(a, b, i, br) ==
  IF i > Len(a) THEN <<>>
  ELSE LET x == a[i] - Limb(b, i) - br IN
       IF x < 0 THEN <<x + LB>> \o NSubFrom(a, b, i + 1, 1)
                ELSE <<x>> \o NSubFrom(a, b, i + 1, 0)
NSub(a, b) == NNorm(NSubFrom(a, b, 1, 0))

\* ---- multiplication / division by a small number (k < 2^23) -------------
RECURSIVE NMulSmallFrom(_, _, _, _)
NMulSmallFrom(a, k, i, c) ==
  IF i > Len(a) THEN NFromNat(c)
  ELSE LET x == a[i] * k + c IN <<x % LB>> \o NMulSmallFrom(a, k, i + 1, x \div LB)
NMulSmall(a, k) == IF k = 0 THEN <<>> ELSE NMulSmallFrom(a, k, 1, 0)

NAddSmall(a, k) == NAdd(a, NFromNat(k))

\* [q, r] with a = q * k + r, 0 <= r < k, k < 2^23
RECURSIVE NDivFrom(_, _, _, _)
NDivFrom(a, k, i, r) ==      \* from most significant limb i down to 1; returns <<quotient limbs (LE), remainder>>
  IF i = 0 THEN [q |-> <<>>, r |-> r]
  ELSE LET x == r * LB + a[i]
           rest == NDivFrom(a, k, i - 1, x % k)
       IN [q |-> rest.q \o <<x \div k>>, r |-> rest.r]
NDivModSmall(a, k) == LET d == NDivFrom(a, k, Len(a), 0) IN [q |-> NNorm(d.q), r |-> d.r]

RECURSIVE NPow10R(_)
NPow10R(n) == IF n = 0 THEN <<1>> ELSE NMulSmall(NPow10R(n - 1), 10)
Pow10Table == FoldLeft(LAMBDA acc, i : Append(acc, NMulSmall(acc[Len(acc)], 10)), << <<1>> >>, [i \in 1..100 |-> i])
NPow10(n) == IF n <= 100 THEN Pow10Table[n + 1] ELSE NPow10R(n)

\* general multiplication (schoolbook), used rarely
RECURSIVE NMulFrom(_, _, _)
NMulFrom(a, b, i) == IF i > Len(b) THEN <<>>
                     ELSE LET rest == NMulFrom(a, b, i + 1) IN
                          NAdd(NMulSmall(a, b[i]), (IF rest = <<>> THEN <<>> ELSE <<0>> \o rest))
NMul(a, b) == IF a = <<>> \/ b = <<>> THEN <<>> ELSE NNorm(NMulFrom(a, b, 1))

\* ---- bits ---------------------------------------------------------------
LimbBitsLE(x) == << x % 2, (x \div 2) % 2, (x \div 4) % 2, (x \div 8) % 2,
                    (x \div 16) % 2, (x \div 32) % 2, (x \div 64) % 2 >>

RECURSIVE TrimBits(_)
TrimBits(bs) == IF bs = <<>> THEN <<>> ELSE IF bs[Len(bs)] = 0 THEN TrimBits(SubSeq(bs, 1, Len(bs) - 1)) ELSE bs

\* least-significant bit first, no most-significant zero
NToBitsLE(a) == TrimBits(FoldLeft(LAMBDA acc, x : acc \o LimbBitsLE(x), <<>>, a))
NBitLength(a) == Len(NToBitsLE(a))

Bit(bs, i) == IF i <= Len(bs) THEN bs[i] ELSE 0

\* group LE bits into LE digits of w bits each
RECURSIVE GroupBits(_, _, _)
GroupBits(bs, w, i) ==
  IF i > Len(bs) THEN <<>>
  ELSE LET RECURSIVE val(_)
           val(j) == IF j = w THEN 0 ELSE Bit(bs, i + j) + 2 * val(j + 1)
       IN <<val(0)>> \o GroupBits(bs, w, i + w)
NFromBitsLE(bs) == NNorm(GroupBits(bs, 7, 1))
\* little-endian bytes, minimal length (0 -> <<>>)
NToBytesLE(a) == GroupBits(NToBitsLE(a), 8, 1)

ByteBitsLE(x) == LimbBitsLE(x % 128) \o << x \div 128 >>
NFromBytesLE(bytes) == NFromBitsLE(FoldLeft(LAMBDA acc, x : acc \o ByteBitsLE(x), <<>>, bytes))

\* ---- decimal digits -----------------------------------------------------
\* most-significant digit first
NFromDigits(ds) == FoldLeft(LAMBDA acc, d : NAddSmall(NMulSmall(acc, 10), d), <<>>, ds)
RECURSIVE NToDigits(_)
NToDigits(a) == IF a = <<>> THEN <<>>
                ELSE LET d == NDivModSmall(a, 10) IN NToDigits(d.q) \o <<d.r>>

\* ---- integers -----------------------------------------------------------
Int0 == [neg |-> FALSE, mag |-> <<>>]
IMk(neg, mag) == [neg |-> (neg /\ mag # <<>>), mag |-> mag]
IFromNat(n) == [neg |-> FALSE, mag |-> NFromNat(n)]
IFromInt(n) == IF n < 0 THEN [neg |-> TRUE, mag |-> NFromNat(-n)] ELSE IFromNat(n)
IIsInt(x) == IsNat(x.mag) /\ x.neg \in BOOLEAN /\ (x.mag = <<>> => ~x.neg)
INeg(x) == IMk(~x.neg, x.mag)
IAdd(x, y) == IF x.neg = y.neg THEN IMk(x.neg, NAdd(x.mag, y.mag))
              ELSE IF NLe(y.mag, x.mag) THEN IMk(x.neg, NSub(x.mag, y.mag))
              ELSE IMk(y.neg, NSub(y.mag, x.mag))
ISub(x, y) == IAdd(x, INeg(y))
IMulSmall(x, k) == IMk(x.neg, NMulSmall(x.mag, k))
ICmp(x, y) == IF x.neg /\ ~y.neg THEN -1
              ELSE IF ~x.neg /\ y.neg THEN 1
              ELSE IF x.neg THEN NCmp(y.mag, x.mag) ELSE NCmp(x.mag, y.mag)
ILe(x, y) == ICmp(x, y) <= 0
\* a TLC integer when small
IIsSmall(x) == NIsSmall(x.mag)
IToInt(x) == IF x.neg THEN 0 - NToNat(x.mag) ELSE NToNat(x.mag)

\* 2^n as a natural; a table for n <= 320 (built once: constant definition), recursion beyond
RECURSIVE NPow2R(_)
NPow2R(n) == IF n = 0 THEN <<1>> ELSE NMulSmall(NPow2R(n - 1), 2)
Pow2Table == FoldLeft(LAMBDA acc, i : Append(acc, NMulSmall(acc[Len(acc)], 2)), << <<1>> >>, [i \in 1..320 |-> i])
NPow2(n) == IF n <= 320 THEN Pow2Table[n + 1] ELSE NPow2R(n)

P2_31 == NPow2(31)
P2_63 == NPow2(63)
\* -2^(n) <= x <= 2^(n) - 1
InSigned(x, p2) == IF x.neg THEN NLe(x.mag, p2) ELSE NLt(x.mag, p2)
InInt32(x) == InSigned(x, P2_31)
InInt64(x) == InSigned(x, P2_63)

\* floor division / modulo by small positive k (Python semantics)
IFloorDivMod(x, k) ==
  LET d == NDivModSmall(x.mag, k) IN
  IF ~x.neg THEN [q |-> IMk(FALSE, d.q), r |-> d.r]
  ELSE IF d.r = 0 THEN [q |-> IMk(TRUE, d.q), r |-> 0]
  ELSE [q |-> IMk(TRUE, NAddSmall(d.q, 1)), r |-> k - d.r]

\* ---- two's complement ---------------------------------------------------
\* big-endian bytes of x in exactly n bytes (caller ensures it fits: -2^(8n-1) <= x < 2^(8n-1))
PadBytesBE(le, n, fill) == [i \in 1..n |-> IF n - i + 1 <= Len(le) THEN le[n - i + 1] ELSE fill]
TwosBE(x, n) ==
  IF ~x.neg THEN PadBytesBE(NToBytesLE(x.mag), n, 0)
  ELSE \* 2^(8n) - mag
       PadBytesBE(NToBytesLE(NSub(NPow2(8 * n), x.mag)), n, 0)
FitsTwos(x, n) == InSigned(x, NPow2(8 * n - 1))
\* minimal number of bytes (>= 1) holding x in two's complement
RECURSIVE MinTwosLenFrom(_, _)
MinTwosLenFrom(x, n) == IF FitsTwos(x, n) THEN n ELSE MinTwosLenFrom(x, n + 1)
MinTwosLen(x) == MinTwosLenFrom(x, 1)
\* value of big-endian two's complement bytes (non-empty)
FromTwosBE(bytes) ==
  LET n == Len(bytes)
      le == [i \in 1..n |-> bytes[n - i + 1]]
      mag == NFromBytesLE(le)
  IN IF n = 0 THEN Int0
     ELSE IF bytes[1] >= 128 THEN IMk(TRUE, NSub(NPow2(8 * n), mag)) ELSE IMk(FALSE, mag)
=============================================================================
