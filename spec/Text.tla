------------------------------- MODULE Text -------------------------------
(* All text in the specification is a sequence of Unicode code points.      *)
(* TLA+ strings appear only as (i) internal tags chosen by the spec and     *)
(* (ii) literals converted once with Cps("...").                            *)
EXTENDS Naturals, Sequences, SequencesExt, FiniteSets

\* printable ASCII 32..126, in order, as one TLA+ string
AsciiStr == " !\"#$%&'()*+,-./0123456789:;<=>?@ABCDEFGHIJKLMNOPQRSTUVWXYZ[\\]^_`abcdefghijklmnopqrstuvwxyz{|}~"

AsciiOrd == [ i \in 1..95 |-> 31 + i ]

\* code point of the one-character string c
RECURSIVE FindChar(_, _)
FindChar(c, i) == IF i > 95 THEN 63
                  ELSE IF SubSeq(AsciiStr, i, i) = c THEN 31 + i ELSE FindChar(c, i + 1)

RECURSIVE CpsFrom(_, _)
CpsFrom(s, i) == IF i > Len(s) THEN <<>> ELSE <<FindChar(SubSeq(s, i, i), 1)>> \o CpsFrom(s, i + 1)

\* Cps("abc") = <<97, 98, 99>>; use only on literals (cost is quadratic-ish)
Cps(s) == CpsFrom(s, 1)

\* ---- small sequence helpers over code-point sequences -------------------
IsDigitCp(c)  == c >= 48 /\ c <= 57
IsAlphaCp(c)  == (c >= 65 /\ c <= 90) \/ (c >= 97 /\ c <= 122) \/ c = 95
IsAlnumCp(c)  == IsAlphaCp(c) \/ IsDigitCp(c)

DOT == 46

\* index of the last occurrence of x in s, 0 if none
RECURSIVE LastIdx(_, _, _)
LastIdx(s, x, i) == IF i = 0 THEN 0 ELSE IF s[i] = x THEN i ELSE LastIdx(s, x, i - 1)
LastIndexOf(s, x) == LastIdx(s, x, Len(s))

HasCp(s, x) == \E i \in 1..Len(s) : s[i] = x

\* membership / position in a sequence (1-based, 0 if absent)
RECURSIVE PosFrom(_, _, _)
PosFrom(seq, x, i) == IF i > Len(seq) THEN 0 ELSE IF seq[i] = x THEN i ELSE PosFrom(seq, x, i + 1)
IndexIn(seq, x) == PosFrom(seq, x, 1)
InSeq(seq, x) == \E i \in 1..Len(seq) : seq[i] = x

\* materialise a (possibly lazily represented) sequence as an explicit tuple: TLC re-evaluates the body of
\* [i \in 1..n |-> e] on every application, which is exponential in nesting depth when e recurses
Mat(s) == FoldLeft(LAMBDA acc, x : Append(acc, x), <<>>, s)
\* map a unary operator over a sequence, materialised
MapSeq(Op(_), s) == FoldLeft(LAMBDA acc, x : Append(acc, Op(x)), <<>>, s)

\* concatenate a sequence of sequences
Concat(ss) == FoldLeft(LAMBDA acc, s : acc \o s, <<>>, ss)

\* decimal digits (code points) of a natural that fits a TLC integer
RECURSIVE NatDigits(_)
NatDigits(n) == IF n < 10 THEN <<48 + n>> ELSE NatDigits(n \div 10) \o <<48 + (n % 10)>>

\* s contains t as a contiguous subsequence
ContainsSeq(s, t) == \E i \in 1..(Len(s) - Len(t) + 1) : SubSeq(s, i, i + Len(t) - 1) = t

NoDup(seq) == \A i, j \in 1..Len(seq) : i # j => seq[i] # seq[j]
=============================================================================
