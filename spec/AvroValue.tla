----------------------------- MODULE AvroValue -----------------------------
(* The Python data model and what "conforms to a schema" means (C09, C10),   *)
(* what a round trip returns (Norm, C01) and which union branch a writer     *)
(* must take (ChooseBranch, C09).                                            *)
(* Values V are the tagged records produced by harness/proj.py:              *)
(*  none | bool b | int neg mag | float sgn exp man | str cp | bytes by |    *)
(*  bytearray by | list it | tuple it | dict ks vs | date | time | datetime | *)
(*  decimal | uuid | other                                                   *)
EXTENDS Naturals, Integers, Sequences, SequencesExt, FiniteSets, TLC, Text, BigNat, Ieee, JTree, AvroSchema, AvroLogical

VNone == [p |-> "none"]
VBool(b) == [p |-> "bool", b |-> b]
VInt(x) == [p |-> "int", neg |-> x.neg, mag |-> x.mag]
VFloat(f) == [p |-> "float", sgn |-> f.sgn, exp |-> f.exp, man |-> f.man]
VStr(cp) == [p |-> "str", cp |-> cp]
VBytes(by) == [p |-> "bytes", by |-> by]
VList(it) == [p |-> "list", it |-> it]
VDict(ks, vs) == [p |-> "dict", ks |-> ks, vs |-> vs]
VTuple(it) == [p |-> "tuple", it |-> it]

FOf(v) == [sgn |-> v.sgn, exp |-> v.exp, man |-> v.man]
IOf(v) == [neg |-> v.neg, mag |-> v.mag]

Opts0 == [strict |-> FALSE, tuples |-> TRUE]

\* ---- dict access -----------------------------------------------------------------
KeyIdx(v, kcp) == IndexIn(v.ks, VStr(kcp))            \* 0 if absent
HasKey(v, kcp) == KeyIdx(v, kcp) > 0
ValAt(v, kcp) == v.vs[KeyIdx(v, kcp)]
K_dashtype == Cps("-type")

\* ---- JSON default -> Python value (what json.loads gives) ---------------------------
RECURSIVE DefVal(_)
DefVal(d) ==
  CASE d.j = "z" -> VNone
    [] d.j = "b" -> VBool(d.b)
    [] d.j = "i" -> [p |-> "int", neg |-> d.neg, mag |-> d.mag]
    [] d.j = "f" -> [p |-> "float", sgn |-> d.sgn, exp |-> d.exp, man |-> d.man]
    [] d.j = "s" -> VStr(d.cp)
    [] d.j = "a" -> VList(MapSeq(DefVal, d.it))
    [] d.j = "o" -> VDict(MapSeq(VStr, d.ks), MapSeq(DefVal, d.vs))

\* ---- equality of values: dicts as mappings, NaN equal to NaN, everything else strict ---
RECURSIVE VEq(_, _)
VEq(a, b) ==
  IF a = b THEN TRUE
  ELSE IF a.p # b.p THEN FALSE
  ELSE CASE a.p = "float" -> IsNaN(FOf(a)) /\ IsNaN(FOf(b))
         [] a.p = "decimal" -> DecEq(a, b)                               \* decimals compare by numeric value (1.20 = 1.2)
         [] a.p = "datetime" -> a.aware = b.aware /\ EpochMicros(a, a.aware) = EpochMicros(b, b.aware)   \* aware datetimes: same instant
         [] a.p \in {"list", "tuple"} -> Len(a.it) = Len(b.it) /\ \A i \in 1..Len(a.it) : VEq(a.it[i], b.it[i])
         [] a.p = "dict" -> /\ Len(a.ks) = Len(b.ks)
                            /\ \A i \in 1..Len(a.ks) :
                                 LET j == IndexIn(b.ks, a.ks[i]) IN j > 0 /\ VEq(a.vs[i], b.vs[j])
         [] OTHER -> FALSE

\* ---- conformance -------------------------------------------------------------------
\* o = [strict, tuples]; atU = the value sits directly at a union position
RECURSIVE Conf(_, _, _, _, _)
IsSeqVal(v, o, atU) == v.p = "list" \/ (v.p = "tuple" /\ ~(atU /\ o.tuples))
IsHint(v, o) == o.tuples /\ v.p = "tuple" /\ Len(v.it) = 2 /\ v.it[1].p = "str"
Loose(o) == "loose" \in DOMAIN o /\ o.loose
\* writer-side strictness: "lax" (default) | "strict" (the record has exactly the schema's fields) |
\* "sad" = strict_allow_default (no extra key; a field may be absent only when it has a default)
WMode(o) == IF "wmode" \in DOMAIN o THEN o.wmode ELSE "lax"

FieldConf(f, v, names, o) ==
  IF HasKey(v, f.name) THEN Conf(f.type, ValAt(v, f.name), names, o, FALSE)
  ELSE IF WMode(o) = "strict" THEN FALSE
  ELSE IF f.hasdef THEN Conf(f.type, DefVal(f.def), names, o, FALSE)
  ELSE WMode(o) = "lax" /\ ~o.strict /\ Conf(f.type, VNone, names, o, FALSE)

Conf(t0, v0, names, o, atU) ==
  LET t == Deref(t0, names)
      pr == Prep(t, v0)                                 \* logical-type conversion (identity when not applicable)
      v == pr.v
  IN IF pr.st # "ok" THEN FALSE ELSE
  CASE t.k = "null" -> v.p = "none"
    [] t.k = "boolean" -> v.p = "bool"
    [] t.k = "int" -> v.p = "int" /\ InInt32(IOf(v))
    [] t.k = "long" -> v.p = "int" /\ InInt64(IOf(v))
    [] t.k \in {"float", "double"} -> v.p \in {"int", "float"}
    [] t.k = "bytes" -> v.p \in {"bytes", "bytearray"}
    [] t.k = "string" -> v.p = "str"
    [] t.k = "fixed" -> v.p = "bytes" /\ Len(v.by) = t.size
    [] t.k = "enum" -> v.p = "str" /\ InSeq(t.syms, v.cp)
    [] t.k = "array" -> \/ IsSeqVal(v, o, atU) /\ \A i \in 1..Len(v.it) : Conf(t.items, v.it[i], names, o, FALSE)
                        \* loose reading (only used to detect ambiguity): Python's Sequence ABC makes b"ab" look like [97, 98]
                        \/ Loose(o) /\ v.p \in {"bytes", "bytearray"}
                              /\ (Len(v.by) = 0 \/ Conf(t.items, [p |-> "int", neg |-> FALSE, mag |-> <<1>>], names, o, FALSE))
    [] t.k = "map" -> /\ v.p = "dict"
                      /\ \A i \in 1..Len(v.ks) : v.ks[i].p = "str"
                      /\ \A i \in 1..Len(v.vs) : Conf(t.values, v.vs[i], names, o, FALSE)
    [] t.k = "record" -> /\ v.p = "dict"
                         /\ (HasKey(v, K_dashtype) => ValAt(v, K_dashtype) = VStr(t.name))
                         /\ \A i \in 1..Len(t.fields) : FieldConf(t.fields[i], v, names, o)
                         /\ (WMode(o) # "lax" => \A i \in 1..Len(v.ks) :
                                v.ks[i].p = "str" /\ \E j \in 1..Len(t.fields) : t.fields[j].name = v.ks[i].cp)
    [] t.k = "union" ->
         IF IsHint(v, o)
         THEN \E i \in 1..Len(t.br) :
                 /\ BranchName(t.br[i], names) = v.it[1].cp
                 /\ \A j \in 1..(i - 1) : BranchName(t.br[j], names) # v.it[1].cp
                 /\ Conf(t.br[i], v.it[2], names, o, TRUE)
         ELSE \E i \in 1..Len(t.br) : Conf(t.br[i], v, names, o, TRUE)

Conforms(t, v, names, o) == Conf(t, v, names, o, FALSE)

\* ---- union branch choice (C09) ------------------------------------------------------
\* number of field names of record r that are keys of dict v
Overlap(r, v) == Cardinality({ i \in 1..Len(r.fields) : HasKey(v, r.fields[i].name) })

\* [st |-> "ok", i, v] | [st |-> "raise"] | [st |-> "unspec"]
ChooseBranch(brs, v, names, o) ==
  IF IsHint(v, o) THEN
     LET hits == { i \in 1..Len(brs) : BranchName(brs[i], names) = v.it[1].cp } IN
     IF hits = {} THEN [st |-> "raise"]
     ELSE LET i == CHOOSE x \in hits : \A y \in hits : x <= y IN
          IF Conf(brs[i], v.it[2], names, o, TRUE) THEN [st |-> "ok", i |-> i, v |-> v.it[2]]
          ELSE [st |-> "unspec", why |-> "hint-nonconf"]   \* a hinted branch the value does not conform to: outside the domain
  ELSE IF o.tuples /\ v.p = "tuple" THEN [st |-> "unspec", why |-> "tuple"]   \* a tuple that is not a (name, value) pair
  ELSE IF v.p = "datetime" /\ \E i \in 1..Len(brs) : LtOf(Deref(brs[i], names)) = "date"
       THEN [st |-> "unspec", why |-> "datetime-date"]   \* a Python datetime is also a date: which of the two branches it belongs to is not pinned
  \* Python's Sequence ABC makes b"ab" look like [97, 98] (DESIGN D.2): where reading bytes as arrays of numbers makes more branches
  \* fit (at this union or anywhere below it), which branch the value belongs to is not pinned
  ELSE IF { i \in 1..Len(brs) : Conf(brs[i], v, names, [strict |-> o.strict, tuples |-> o.tuples, loose |-> TRUE], TRUE) }
          # { i \in 1..Len(brs) : Conf(brs[i], v, names, o, TRUE) }
       THEN [st |-> "unspec", why |-> "bytes-array"]
  ELSE
     LET conf == { i \in 1..Len(brs) : Conf(brs[i], v, names, o, TRUE) }
         RC == { i \in conf : Deref(brs[i], names).k = "record" }
         NR == conf \ RC
         minOf(S) == CHOOSE x \in S : \A y \in S : x <= y
     IN IF conf = {} THEN [st |-> "raise"]
        ELSE IF RC # {} /\ NR # {} THEN [st |-> "unspec", why |-> "record-and-other"]
        ELSE IF RC # {} THEN
             LET best == CHOOSE x \in RC : \A y \in RC :
                            \/ Overlap(Deref(brs[x], names), v) > Overlap(Deref(brs[y], names), v)
                            \/ (Overlap(Deref(brs[x], names), v) = Overlap(Deref(brs[y], names), v) /\ x <= y)
             IN [st |-> "ok", i |-> best, v |-> v]
        ELSE LET f == minOf(NR) IN
             IF Deref(brs[f], names).k = "float" /\ \E j \in (f + 1)..Len(brs) : Deref(brs[j], names).k = "double"
             THEN [st |-> "ok", i |-> minOf({ j \in (f + 1)..Len(brs) : Deref(brs[j], names).k = "double" }), v |-> v]
             ELSE [st |-> "ok", i |-> f, v |-> v]

\* ---- what reading back returns (C01 normalisation) ------------------------------------
\* [ok |-> TRUE, v] | [ok |-> FALSE]  (FALSE: outside the domain, e.g. unspecified union choice, float overflow)
\* named = TRUE: what a reader with return_named_type=True returns - (full name, value) pairs at union positions whose branch is a named type
\* mode: [named |-> BOOLEAN, json |-> BOOLEAN]; json = TRUE: numbers as the JSON text carries them (no binary32 rounding, ints stay ints)
RECURSIVE NormM(_, _, _, _, _)
NormN(t, v, names, o, named) == NormM(t, v, names, o, [named |-> named, json |-> FALSE, override |-> FALSE])
\* return_named_type together with return_named_type_override: the pair only where the union has more than one named type
\* return_record_name: pairs for record branches only
NormR(t, v, names, o) == NormM(t, v, names, o, [named |-> TRUE, json |-> FALSE, override |-> FALSE, records |-> TRUE])
NormNO(t, v, names, o) == NormM(t, v, names, o, [named |-> TRUE, json |-> FALSE, override |-> TRUE])
Norm(t, v, names, o) == NormM(t, v, names, o, [named |-> FALSE, json |-> FALSE, override |-> FALSE])
NormJ(t, v, names, o) == NormM(t, v, names, o, [named |-> FALSE, json |-> TRUE, override |-> FALSE])
NamedBranches(t, names) == Cardinality({ i \in 1..Len(t.br) : IsNamedKind(Deref(t.br[i], names).k) })
NormSeq(t, xs, names, o, named) ==
  LET rs == MapSeq(LAMBDA x : NormM(t, x, names, o, named), xs) IN
  IF \A i \in 1..Len(xs) : rs[i].ok THEN [ok |-> TRUE, vs |-> MapSeq(LAMBDA r : r.v, rs)] ELSE [ok |-> FALSE]
FieldSrc(f, v) == IF HasKey(v, f.name) THEN ValAt(v, f.name) ELSE IF f.hasdef THEN DefVal(f.def) ELSE VNone
ToDouble(v) == IF v.p = "int" THEN IntToDouble(IOf(v)) ELSE [ok |-> TRUE, f |-> FOf(v)]
NormM(t0, v0, names, o, named) ==
  LET t == Deref(t0, names)
      pr == Prep(t, v0)
      v == pr.v
      ok(x) == LET u == Unprep(t, x) IN                  \* logical types are converted back by the reader
               IF u.p = "unrepresentable" THEN [ok |-> FALSE] ELSE [ok |-> TRUE, v |-> u]
      bad == [ok |-> FALSE]
  IN IF pr.st # "ok" THEN bad ELSE
  CASE t.k \in {"null", "boolean", "int", "long", "string", "enum", "fixed"} -> ok(v)
    [] t.k = "bytes" -> ok(VBytes(v.by))
    [] t.k \in {"double", "float"} /\ named.json -> ok(v)
    [] t.k = "double" -> LET d == ToDouble(v) IN IF d.ok THEN ok(VFloat(d.f)) ELSE bad
    [] t.k = "float" -> LET d == ToDouble(v) IN
                        IF ~d.ok THEN bad
                        ELSE LET r == RoundToF32(d.f) IN IF r.ok THEN ok(VFloat(r.f)) ELSE bad
    [] t.k = "array" -> LET r == NormSeq(t.items, v.it, names, o, named) IN IF r.ok THEN ok(VList(r.vs)) ELSE bad
    [] t.k = "map" -> LET r == NormSeq(t.values, v.vs, names, o, named) IN IF r.ok THEN ok(VDict(v.ks, r.vs)) ELSE bad
    [] t.k = "record" ->
         LET rs == MapSeq(LAMBDA f : NormM(f.type, FieldSrc(f, v), names, o, named), t.fields) IN
         IF \A i \in 1..Len(t.fields) : rs[i].ok
         THEN ok(VDict(MapSeq(LAMBDA f : VStr(f.name), t.fields), MapSeq(LAMBDA r : r.v, rs)))
         ELSE bad
    [] t.k = "union" -> LET c == ChooseBranch(t.br, v, names, o) IN
                        IF c.st # "ok" THEN bad
                        ELSE LET r == NormM(t.br[c.i], c.v, names, o, named)
                                 b == Deref(t.br[c.i], names)
                                 wanted == IF "records" \in DOMAIN named /\ named.records THEN b.k = "record" ELSE IsNamedKind(b.k)
                             IN IF r.ok /\ named.named /\ wanted /\ ~(named.override /\ NamedBranches(t, names) = 1) THEN [ok |-> TRUE, v |-> VTuple(<< VStr(b.name), r.v >>)] ELSE r
=============================================================================
