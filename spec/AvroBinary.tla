----------------------------- MODULE AvroBinary -----------------------------
(* The Avro binary encoding, written from the specification:                 *)
(*  Encode  - the canonical layout a writer must produce (C02)               *)
(*  Match   - does byte string B hold, from position p, an encoding of v     *)
(*            (canonical or any block layout), reading the union indices     *)
(*            from B and demanding conformance to the branch taken           *)
(*  Decode  - total three-valued decoder of arbitrary byte strings (C03)     *)
EXTENDS Naturals, Integers, Sequences, SequencesExt, FiniteSets, TLC, Text, BigNat, Utf8, Ieee, JTree, AvroSchema, AvroValue

\* ---- zig-zag base-128 varints ------------------------------------------------------
\* zig-zag of integer x as a natural: 2|x| for x >= 0, 2|x|-1 for x < 0
ZigZag(x) == IF x.neg THEN NSub(NMulSmall(x.mag, 2), <<1>>) ELSE NMulSmall(x.mag, 2)
UnZigZag(z) == LET d == NDivModSmall(z, 2) IN
               IF d.r = 0 THEN IMk(FALSE, d.q) ELSE IMk(TRUE, NAddSmall(d.q, 1))
\* little-endian base-128 groups, continuation bit on all but the last
VarBytes(z) == IF z = <<>> THEN <<0>>
               ELSE Mat([i \in 1..Len(z) |-> IF i < Len(z) THEN z[i] + 128 ELSE z[i]])
VarintOf(x) == VarBytes(ZigZag(x))
VarintNat(n) == VarintOf(IFromNat(n))
VarintInt(n) == VarintOf(IFromInt(n))

\* read a varint at p: [ok |-> TRUE, x (integer), p (next position), n (bytes used)] | [ok |-> FALSE] (input ended)
RECURSIVE VarEnd(_, _)
VarEnd(B, p) == IF p > Len(B) THEN 0 ELSE IF B[p] < 128 THEN p ELSE VarEnd(B, p + 1)
ReadVar(B, p) ==
  LET e == VarEnd(B, p) IN
  IF e = 0 THEN [ok |-> FALSE]
  ELSE LET z == NNorm(Mat([i \in 1..(e - p + 1) |-> B[p + i - 1] % 128]))
       IN [ok |-> TRUE, x |-> UnZigZag(z), p |-> e + 1, n |-> e - p + 1]

\* ---- Encode (canonical layout) ---------------------------------------------------------
\* [ok |-> TRUE, b] | [ok |-> FALSE, why]   why: "nonconf" | "unspec"
RECURSIVE Enc(_, _, _, _)
EncOk(b) == [ok |-> TRUE, b |-> b]
EncSeqFold(t, xs, names, o) ==     \* concatenation of the encodings of xs under t
  FoldLeft(LAMBDA acc, x : IF ~acc.ok THEN acc
                           ELSE LET r == Enc(t, x, names, o) IN IF r.ok THEN EncOk(acc.b \o r.b) ELSE r,
           EncOk(<<>>), xs)
StrBytes(cp) == LET u == Utf8Enc(cp) IN VarintNat(Len(u)) \o u

Enc(t0, v0, names, o) ==
  LET t == Deref(t0, names)
      pr == Prep(t, v0)
      v == pr.v
      bad == [ok |-> FALSE, why |-> "nonconf"]
  IN IF pr.st # "ok" THEN bad ELSE
  CASE t.k = "null" -> IF v.p = "none" THEN EncOk(<<>>) ELSE bad
    [] t.k = "boolean" -> IF v.p = "bool" THEN EncOk(IF v.b THEN <<1>> ELSE <<0>>) ELSE bad
    [] t.k = "int" -> IF v.p = "int" /\ InInt32(IOf(v)) THEN EncOk(VarintOf(IOf(v))) ELSE bad
    [] t.k = "long" -> IF v.p = "int" /\ InInt64(IOf(v)) THEN EncOk(VarintOf(IOf(v))) ELSE bad
    [] t.k = "double" -> IF v.p \in {"int", "float"}
                         THEN LET d == ToDouble(v) IN IF d.ok THEN EncOk(DoubleBytesLE(d.f)) ELSE [ok |-> FALSE, why |-> "unspec"]
                         ELSE bad
    [] t.k = "float" -> IF v.p \in {"int", "float"}
                        THEN LET d == ToDouble(v) IN
                             IF ~d.ok THEN [ok |-> FALSE, why |-> "unspec"]
                             ELSE LET r == ToF32(d.f) IN IF r.ok THEN EncOk(F32BytesLE(r)) ELSE [ok |-> FALSE, why |-> "unspec"]
                        ELSE bad
    [] t.k = "bytes" -> IF v.p \in {"bytes", "bytearray"} THEN EncOk(VarintNat(Len(v.by)) \o v.by) ELSE bad
    [] t.k = "string" -> IF v.p = "str" THEN (IF AllScalar(v.cp) THEN EncOk(StrBytes(v.cp)) ELSE [ok |-> FALSE, why |-> "unspec"]) ELSE bad
    [] t.k = "fixed" -> IF v.p = "bytes" /\ Len(v.by) = t.size THEN EncOk(v.by) ELSE bad
    [] t.k = "enum" -> IF v.p = "str" /\ InSeq(t.syms, v.cp) THEN EncOk(VarintNat(IndexIn(t.syms, v.cp) - 1)) ELSE bad
    [] t.k = "array" ->
         IF ~IsSeqVal(v, o, FALSE) THEN bad
         ELSE IF Len(v.it) = 0 THEN EncOk(<<0>>)
         ELSE LET r == EncSeqFold(t.items, v.it, names, o) IN
              IF r.ok THEN EncOk(VarintNat(Len(v.it)) \o r.b \o <<0>>) ELSE r
    [] t.k = "map" ->
         IF v.p # "dict" \/ ~(\A i \in 1..Len(v.ks) : v.ks[i].p = "str") THEN bad
         ELSE IF Len(v.ks) = 0 THEN EncOk(<<0>>)
         ELSE LET r == FoldLeft(LAMBDA acc, i : IF ~acc.ok THEN acc
                                 ELSE LET e == Enc(t.values, v.vs[i], names, o) IN
                                      IF e.ok THEN EncOk(acc.b \o StrBytes(v.ks[i].cp) \o e.b) ELSE e,
                                EncOk(<<>>), [i \in 1..Len(v.ks) |-> i])
              IN IF r.ok THEN EncOk(VarintNat(Len(v.ks)) \o r.b \o <<0>>) ELSE r
    [] t.k = "record" ->
         IF v.p # "dict" THEN bad
         ELSE FoldLeft(LAMBDA acc, f : IF ~acc.ok THEN acc
                         ELSE IF ~HasKey(v, f.name) /\ ~f.hasdef /\ ~Conf(f.type, VNone, names, o, FALSE) THEN bad
                         ELSE LET e == Enc(f.type, FieldSrc(f, v), names, o) IN
                              IF e.ok THEN EncOk(acc.b \o e.b) ELSE e,
                       EncOk(<<>>), t.fields)
    [] t.k = "union" ->
         LET c == ChooseBranch(t.br, v, names, o) IN
         IF c.st = "raise" THEN bad
         ELSE IF c.st = "unspec" THEN [ok |-> FALSE, why |-> "unspec", amb |-> c.why]
         ELSE LET e == Enc(t.br[c.i], c.v, names, o) IN
              IF e.ok THEN EncOk(VarintNat(c.i - 1) \o e.b) ELSE e
Encode(t, v, names, o) == Enc(t, v, names, o)

\* ---- Match: B[p..] holds an encoding of v under t; returns the position after it, or 0 ------
\* canon = TRUE: arrays/maps must be "one counted block then 0" / "0" (what a writer must emit, C02)
\* canon = FALSE: any partition into blocks, each with a positive count or a negative count + byte size (C03)
RECURSIVE Mt(_, _, _, _, _, _, _)
IsAt(B, p, bs) == p + Len(bs) - 1 <= Len(B) /\ SubSeq(B, p, p + Len(bs) - 1) = bs
After(B, p, bs) == IF p > 0 /\ IsAt(B, p, bs) THEN p + Len(bs) ELSE 0

\* items xs[i..] of type t from position p; returns end position or 0
RECURSIVE MtItems(_, _, _, _, _, _, _, _, _)
MtItems(t, xs, i, n, B, p, names, o, canon) ==      \* match n items starting with xs[i]
  IF p = 0 THEN 0
  ELSE IF n = 0 THEN p
  ELSE MtItems(t, xs, i + 1, n - 1, B, Mt(t, xs[i], B, p, names, o, canon), names, o, canon)

\* map entries: each entry's key must be a not-yet-used key of v (any order)
\* UTF-8 encodings of the keys of dict v (<<>> for keys that are not text), computed once
KeyEncs(v) == MapSeq(LAMBDA k : IF k.p = "str" /\ AllScalar(k.cp) THEN <<1>> \o Utf8Enc(k.cp) ELSE <<0>>, v.ks)
RECURSIVE MtEntries(_, _, _, _, _, _, _, _, _, _)
MtEntries(t, v, ke, used, n, B, p, names, o, canon) ==    \* returns [p, used]
  IF p = 0 \/ n = 0 THEN [p |-> p, used |-> used]
  ELSE LET len == ReadVar(B, p) IN
       IF ~len.ok \/ len.x.neg \/ ~NIsSmall(len.x.mag) THEN [p |-> 0, used |-> used]
       ELSE LET L == NToNat(len.x.mag)
                kb == IF len.p + L - 1 <= Len(B) THEN SubSeq(B, len.p, len.p + L - 1) ELSE <<>>
                cand == { j \in 1..Len(v.ks) : j \notin used /\ ke[j] = <<1>> \o kb }
            IN IF len.p + L - 1 > Len(B) \/ cand = {} THEN [p |-> 0, used |-> used]
               ELSE LET j == CHOOSE x \in cand : TRUE
                        q == Mt(t, v.vs[j], B, len.p + L, names, o, canon)
                    IN MtEntries(t, v, ke, used \cup {j}, n - 1, B, q, names, o, canon)

\* blocks of an array (isMap = FALSE; done = number of items already matched) or map (used = set of used entries)
RECURSIVE MtBlocks(_, _, _, _, _, _, _, _, _, _)
MtBlocks(t, v, ke, isMap, done, used, B, p, names, o) ==
  LET total == IF isMap THEN Len(v.ks) ELSE Len(v.it)
      c == ReadVar(B, p)
  IN IF p = 0 \/ ~c.ok \/ ~NIsSmall(c.x.mag) THEN 0
     ELSE IF c.x.mag = <<>> THEN (IF (IF isMap THEN Cardinality(used) ELSE done) = total THEN c.p ELSE 0)
     ELSE LET n == NToNat(c.x.mag)
              sz == ReadVar(B, c.p)                      \* only meaningful when the count is negative
              start == IF c.x.neg THEN (IF sz.ok THEN sz.p ELSE 0) ELSE c.p
          IN IF start = 0 THEN 0
             ELSE IF isMap THEN
                  LET r == MtEntries(t, v, ke, used, n, B, start, names, o, FALSE) IN
                  IF Cardinality(used) + n > total THEN 0 ELSE MtBlocks(t, v, ke, TRUE, 0, r.used, B, r.p, names, o)
             ELSE IF done + n > total THEN 0
                  ELSE MtBlocks(t, v, ke, FALSE, done + n, {}, B, MtItems(t, v.it, done + 1, n, B, start, names, o, FALSE), names, o)

Mt(t0, v0, B, p, names, o, canon) ==
  LET t == Deref(t0, names)
      pr == Prep(t, v0)
      v == pr.v
  IN IF p = 0 \/ pr.st # "ok" THEN 0 ELSE
  CASE t.k \in {"null", "boolean", "int", "long", "float", "double", "bytes", "string", "fixed", "enum"} ->
         LET e == Enc(t, v, names, o) IN IF e.ok THEN After(B, p, e.b) ELSE 0
    [] t.k = "array" ->
         IF ~IsSeqVal(v, o, FALSE) THEN 0
         ELSE IF canon THEN
              IF Len(v.it) = 0 THEN After(B, p, <<0>>)
              ELSE After(B, MtItems(t.items, v.it, 1, Len(v.it), B, After(B, p, VarintNat(Len(v.it))), names, o, TRUE), <<0>>)
         ELSE MtBlocks(t.items, v, <<>>, FALSE, 0, {}, B, p, names, o)
    [] t.k = "map" ->
         IF v.p # "dict" THEN 0
         ELSE IF canon THEN
              IF Len(v.ks) = 0 THEN After(B, p, <<0>>)
              ELSE LET r == MtEntries(t.values, v, KeyEncs(v), {}, Len(v.ks), B, After(B, p, VarintNat(Len(v.ks))), names, o, TRUE)
                   IN After(B, r.p, <<0>>)
         ELSE MtBlocks(t.values, v, KeyEncs(v), TRUE, 0, {}, B, p, names, o)
    [] t.k = "record" ->
         IF v.p # "dict" THEN 0
         ELSE FoldLeft(LAMBDA q, f : IF q = 0 THEN 0
                         ELSE IF ~HasKey(v, f.name) /\ ~f.hasdef /\ ~Conf(f.type, VNone, names, o, FALSE) THEN 0
                         ELSE Mt(f.type, FieldSrc(f, v), B, q, names, o, canon),
                       p, t.fields)
    [] t.k = "union" ->
         LET ix == ReadVar(B, p) IN
         IF ~ix.ok \/ ix.x.neg \/ ~NIsSmall(ix.x.mag) THEN 0
         ELSE LET i == NToNat(ix.x.mag) + 1 IN
              IF i > Len(t.br) \/ ix.n # Len(VarintNat(i - 1)) THEN 0
              ELSE IF IsHint(v, o)
                   THEN IF BranchName(t.br[i], names) = v.it[1].cp /\ Conf(t.br[i], v.it[2], names, o, TRUE)
                        THEN Mt(t.br[i], v.it[2], B, ix.p, names, o, canon) ELSE 0
                   ELSE IF Conf(t.br[i], v, names, o, TRUE) THEN Mt(t.br[i], v, B, ix.p, names, o, canon) ELSE 0

\* C02: the bytes are exactly the specification's encoding of v for the branches taken
MatchCanon(t, v, B, names, o) == Mt(t, v, B, 1, names, o, TRUE) = Len(B) + 1
\* C03: the bytes are some specification-valid encoding of v
MatchAny(t, v, B, names, o) == Mt(t, v, B, 1, names, o, FALSE) = Len(B) + 1

\* ---- Decode: total, three-valued -------------------------------------------------------
\* [st |-> "ok", v, p] | [st |-> "eof"] | [st |-> "index"] | [st |-> "unspec"]
DOk(v, p) == [st |-> "ok", v |-> v, p |-> p]
DErr(kind) == [st |-> kind]
RECURSIVE Dec(_, _, _, _)

RECURSIVE DecItems(_, _, _, _, _, _)
DecItems(t, n, B, p, names, acc) ==            \* n items from p, appended to acc
  IF n = 0 THEN DOk(acc, p)
  ELSE LET r == Dec(t, B, p, names) IN
       IF r.st # "ok" THEN r ELSE DecItems(t, n - 1, B, r.p, names, Append(acc, r.v))

DecStr(B, p) ==
  LET len == ReadVar(B, p) IN
  IF ~len.ok THEN DErr("eof")
  ELSE IF len.x.neg \/ ~NIsSmall(len.x.mag) THEN DErr("unspec")
  ELSE LET L == NToNat(len.x.mag) IN
       IF len.p + L - 1 > Len(B) THEN DErr("eof") ELSE DOk(SubSeq(B, len.p, len.p + L - 1), len.p + L)

RECURSIVE DecEntries(_, _, _, _, _, _, _)
DecEntries(t, n, B, p, names, ks, vs) ==
  IF n = 0 THEN [st |-> "ok", ks |-> ks, vs |-> vs, p |-> p]
  ELSE LET k == DecStr(B, p) IN
       IF k.st # "ok" THEN k
       ELSE LET u == Utf8Dec(k.v) IN
            IF ~u.ok THEN DErr("unspec")
            ELSE LET r == Dec(t, B, k.p, names) IN
                 IF r.st # "ok" THEN r
                 ELSE IF InSeq(ks, VStr(u.cps)) THEN DErr("unspec")         \* duplicate map key
                 ELSE DecEntries(t, n - 1, B, r.p, names, Append(ks, VStr(u.cps)), Append(vs, r.v))

RECURSIVE DecBlocks(_, _, _, _, _, _, _)
DecBlocks(t, isMap, B, p, names, ks, vs) ==
  LET c == ReadVar(B, p) IN
  IF ~c.ok THEN DErr("eof")
  ELSE IF ~NIsSmall(c.x.mag) THEN DErr("unspec")
  ELSE IF c.x.mag = <<>> THEN (IF isMap THEN DOk(VDict(ks, vs), c.p) ELSE DOk(VList(vs), c.p))
  ELSE LET n == NToNat(c.x.mag)
           sz == ReadVar(B, c.p)
       IN IF c.x.neg /\ ~sz.ok THEN DErr("eof")
          ELSE LET start == IF c.x.neg THEN sz.p ELSE c.p IN
               IF isMap THEN LET r == DecEntries(t, n, B, start, names, ks, vs) IN
                             IF r.st # "ok" THEN r ELSE DecBlocks(t, TRUE, B, r.p, names, r.ks, r.vs)
               ELSE LET r == DecItems(t, n, B, start, names, vs) IN
                    IF r.st # "ok" THEN r ELSE DecBlocks(t, FALSE, B, r.p, names, <<>>, r.v)

RECURSIVE DecFields(_, _, _, _, _, _, _)
DecFields(fs, i, B, p, names, ks, vs) ==
  IF i > Len(fs) THEN DOk(VDict(ks, vs), p)
  ELSE LET r == Dec(fs[i].type, B, p, names) IN
       IF r.st # "ok" THEN r ELSE DecFields(fs, i + 1, B, r.p, names, Append(ks, VStr(fs[i].name)), Append(vs, r.v))

Dec(t0, B, p, names) ==
  LET t == Deref(t0, names)
      \* logical conversion of the stored value; stored values outside the logical type's domain have no defined reading
      lg(r) == IF r.st # "ok" THEN r
               ELSE LET u == Unprep(t, r.v) IN IF u.p = "unrepresentable" THEN DErr("unspec") ELSE DOk(u, r.p)
  IN
  CASE t.k = "null" -> DOk(VNone, p)
    [] t.k = "boolean" -> IF p > Len(B) THEN DErr("eof")
                          ELSE IF B[p] = 0 THEN DOk(VBool(FALSE), p + 1)
                          ELSE IF B[p] = 1 THEN DOk(VBool(TRUE), p + 1) ELSE DErr("unspec")
    [] t.k \in {"int", "long"} ->
         LET r == ReadVar(B, p) IN
         IF ~r.ok THEN DErr("eof")
         ELSE IF r.n > 10 \/ ~(IF t.k = "int" THEN InInt32(r.x) ELSE InInt64(r.x)) THEN DErr("unspec")
         ELSE lg(DOk(VInt(r.x), r.p))
    [] t.k = "float" -> IF p + 3 > Len(B) THEN DErr("eof")
                        ELSE DOk(VFloat(F32ToDouble(F32FromBytesLE(SubSeq(B, p, p + 3)))), p + 4)
    [] t.k = "double" -> IF p + 7 > Len(B) THEN DErr("eof")
                         ELSE DOk(VFloat(DoubleFromBytesLE(SubSeq(B, p, p + 7))), p + 8)
    [] t.k = "bytes" -> LET r == DecStr(B, p) IN IF r.st = "ok" THEN lg(DOk(VBytes(r.v), r.p)) ELSE r
    [] t.k = "string" -> LET r == DecStr(B, p) IN
                         IF r.st # "ok" THEN r
                         ELSE LET u == Utf8Dec(r.v) IN IF u.ok THEN lg(DOk(VStr(u.cps), r.p)) ELSE DErr("unspec")
    [] t.k = "fixed" -> IF p + t.size - 1 > Len(B) THEN DErr("eof")
                        ELSE lg(DOk(VBytes(SubSeq(B, p, p + t.size - 1)), p + t.size))
    [] t.k = "enum" ->
         LET r == ReadVar(B, p) IN
         IF ~r.ok THEN DErr("eof")
         ELSE IF r.x.neg \/ ~NIsSmall(r.x.mag) THEN DErr("index")
         ELSE LET i == NToNat(r.x.mag) IN
              IF i >= Len(t.syms) THEN DErr("index") ELSE DOk(VStr(t.syms[i + 1]), r.p)
    [] t.k = "union" ->
         LET r == ReadVar(B, p) IN
         IF ~r.ok THEN DErr("eof")
         ELSE IF r.x.neg \/ ~NIsSmall(r.x.mag) THEN DErr("index")
         ELSE LET i == NToNat(r.x.mag) IN
              IF i >= Len(t.br) THEN DErr("index") ELSE Dec(t.br[i + 1], B, r.p, names)
    [] t.k = "array" -> DecBlocks(t.items, FALSE, B, p, names, <<>>, <<>>)
    [] t.k = "map" -> DecBlocks(t.values, TRUE, B, p, names, <<>>, <<>>)
    [] t.k = "record" -> DecFields(t.fields, 1, B, p, names, <<>>, <<>>)
Decode(t, B, names) == Dec(t, B, 1, names)
=============================================================================
