------------------------------ MODULE AvroLoad ------------------------------
(* load_schema from a repository of per-type files (C19).                     *)
(* The requirement: loading the top schema from files, each named after the   *)
(* type's full name and referring to the others by qualified or namespace-    *)
(* relative name, is equivalent to parsing those types inlined at their first *)
(* use (AvroSchema!ParseRepo).  The loader of the implementation is modelled  *)
(* as a state machine - parse; on an unknown name load that file, inject it   *)
(* at the first reference, retry - whose result must coincide with ParseRepo  *)
(* (checked by TLC on every logged case: LoaderMachine).                      *)
EXTENDS Naturals, Sequences, SequencesExt, FiniteSets, TLC, Text, JTree, AvroSchema, AvroCanon

\* ---- the inject step on raw trees: replace the FIRST reference to `full` (document order, namespace-aware) by its definition ----
\* returns [t (new tree), done]
RECURSIVE Inject(_, _, _, _, _)
InjectSeq(xs, ns, full, def, done0) ==
  FoldLeft(LAMBDA acc, x : LET r == Inject(x, ns, full, def, acc.done) IN [ts |-> Append(acc.ts, r.t), done |-> r.done],
           [ts |-> <<>>, done |-> done0], xs)
SetKey(o, key, val) == [o EXCEPT !.vs = [i \in 1..Len(o.vs) |-> IF o.ks[i] = key THEN val ELSE o.vs[i]]]
Inject(x, ns, full, def, done) ==
  IF done THEN [t |-> x, done |-> TRUE]
  ELSE IF JIsStr(x) THEN
       IF x.cp \notin PrimNames /\ Qualify(x.cp, ns) = full THEN [t |-> def, done |-> TRUE] ELSE [t |-> x, done |-> FALSE]
  ELSE IF JIsArr(x) THEN LET r == InjectSeq(x.it, ns, full, def, FALSE) IN [t |-> [x EXCEPT !.it = r.ts], done |-> r.done]
  ELSE IF ~JIsObj(x) \/ ~JHasStr(x, K_type) THEN [t |-> x, done |-> FALSE]
  ELSE LET ty == JGet(x, K_type).cp IN
       IF ty = N_array /\ JHas(x, K_items) THEN
          LET r == Inject(JGet(x, K_items), ns, full, def, FALSE) IN [t |-> SetKey(x, K_items, r.t), done |-> r.done]
       ELSE IF ty = N_map /\ JHas(x, K_values) THEN
          LET r == Inject(JGet(x, K_values), ns, full, def, FALSE) IN [t |-> SetKey(x, K_values, r.t), done |-> r.done]
       ELSE IF ty \in {N_record, N_error} /\ JHasStr(x, K_name) /\ JHas(x, K_fields) /\ JIsArr(JGet(x, K_fields)) THEN
          LET ns2 == NameInfo(x, ns).ns
              fs == JGet(x, K_fields).it
              r == FoldLeft(LAMBDA acc, f :
                              IF acc.done \/ ~JIsObj(f) \/ ~JHas(f, K_type) THEN [fs |-> Append(acc.fs, f), done |-> acc.done]
                              ELSE LET q == Inject(JGet(f, K_type), ns2, full, def, FALSE) IN
                                   [fs |-> Append(acc.fs, SetKey(f, K_type, q.t)), done |-> q.done],
                            [fs |-> <<>>, done |-> FALSE], fs)
          IN [t |-> SetKey(x, K_fields, [j |-> "a", it |-> r.fs]), done |-> r.done]
       ELSE [t |-> x, done |-> FALSE]

\* ---- the loader machine: [st |-> "ok", tree] | [st |-> "missing", name] | [st |-> "other"] ----
\* Load(name): the file's schema with everything it needs injected (recursively); Top-level: the same for the top schema.
RECURSIVE LoadInto(_, _, _)
LoadInto(schema, repo, fuel) ==
  LET P == Parse(schema) IN
  IF P.ok THEN [st |-> "ok", tree |-> schema]
  ELSE IF P.kind # "undefined" THEN [st |-> "other"]
  ELSE IF fuel = 0 THEN [st |-> "other"]
  ELSE IF P.name \notin DOMAIN repo THEN [st |-> "missing", name |-> P.name]
  ELSE LET sub == LoadInto(repo[P.name], repo, fuel - 1) IN
       IF sub.st # "ok" THEN sub
       ELSE LET inj == Inject(schema, <<>>, P.name, sub.tree, FALSE) IN
            IF ~inj.done THEN [st |-> "other"] ELSE LoadInto(inj.t, repo, fuel - 1)
LoaderMachine(top, repo) == LoadInto(top, repo, 40)
=============================================================================
