---------------------------- MODULE AvroLogical ----------------------------
(* Logical types (C16): the specification's representation of dates, times,  *)
(* timestamps, UUIDs and decimals.                                           *)
(*   Prep(t, v)   - the value actually stored for Python value v under node  *)
(*                  t: [st |-> "ok", v] | [st |-> "raise"]; identity when t  *)
(*                  carries no logical type or v is not the logical Python   *)
(*                  type (an int under 'date' is stored as that int)         *)
(*   Unprep(t, x) - what the reader returns for stored x                     *)
(* Values: date[y,mo,d] time[h,mi,s,us,aware] datetime[y,mo,d,h,mi,s,us,     *)
(* aware,off,offus] decimal[sign,digits,exp] uuid[hex]                       *)
EXTENDS Naturals, Integers, Sequences, SequencesExt, BigNat, Text

\* ---- civil calendar (proleptic Gregorian), days relative to 1970-01-01 ----------------------
\* for years 1..9999 every intermediate quantity is non-negative, so \div is floor division
DaysFromCivil(y0, m, d) ==
  LET y == IF m <= 2 THEN y0 - 1 ELSE y0
      era == y \div 400
      yoe == y - era * 400
      mp == IF m > 2 THEN m - 3 ELSE m + 9
      doy == ((153 * mp + 2) \div 5) + d - 1
      doe == yoe * 365 + (yoe \div 4) - (yoe \div 100) + doy
  IN era * 146097 + doe - 719468

CivilFromDays(z0) ==
  LET z == z0 + 719468
      era == z \div 146097
      doe == z - era * 146097
      yoe == (doe - (doe \div 1460) + (doe \div 36524) - (doe \div 146096)) \div 365
      doy == doe - (365 * yoe + (yoe \div 4) - (yoe \div 100))
      mp == (5 * doy + 2) \div 153
      d == doy - ((153 * mp + 2) \div 5) + 1
      m == IF mp < 10 THEN mp + 3 ELSE mp - 9
      y == yoe + era * 400 + (IF m <= 2 THEN 1 ELSE 0)
  IN [y |-> y, mo |-> m, d |-> d]

MinDay == DaysFromCivil(1, 1, 1)           \* -719162
MaxDay == DaysFromCivil(9999, 12, 31)      \*  2932896

IsLeap(y) == (y % 4 = 0 /\ y % 100 # 0) \/ y % 400 = 0
DaysInMonth(y, m) == IF m = 2 THEN (IF IsLeap(y) THEN 29 ELSE 28) ELSE IF m \in {4, 6, 9, 11} THEN 30 ELSE 31

\* ---- times --------------------------------------------------------------------------------------
MillisOfDay(v) == v.h * 3600000 + v.mi * 60000 + v.s * 1000 + (v.us \div 1000)
\* micros of day exceed 2^31: BigNat
MicrosOfDay(v) == IAdd(IMulSmall(IFromNat(v.h * 3600 + v.mi * 60 + v.s), 1000000), IFromNat(v.us))

\* ---- instants -----------------------------------------------------------------------------------
\* microseconds from 1970-01-01T00:00:00 of the civil fields, minus the UTC offset
EpochMicros(v, useOffset) ==
  LET days == DaysFromCivil(v.y, v.mo, v.d)
      sod == v.h * 3600 + v.mi * 60 + v.s
      secs == IAdd(IMulSmall(IFromInt(days), 86400), IFromInt(IF useOffset THEN sod - v.off ELSE sod))
  IN IAdd(IMulSmall(secs, 1000000), IFromInt(IF useOffset THEN v.us - v.offus ELSE v.us))

FloorDiv1000(x) == IFloorDivMod(x, 1000).q
\* truncation toward zero
TruncDiv1000(x) == IMk(x.neg, NDivModSmall(x.mag, 1000).q)

\* datetime from microseconds since the epoch (x: integer); [ok, v]
DateTimeOfMicros(x, aware) ==
  LET a == IFloorDivMod(x, 1000000)             \* seconds, microsecond
      b == IFloorDivMod(a.q, 86400)             \* days, second of day
  IN IF ~IIsSmall(b.q) THEN [ok |-> FALSE]
     ELSE LET days == IToInt(b.q) IN
          IF days < MinDay \/ days > MaxDay THEN [ok |-> FALSE]
          ELSE LET c == CivilFromDays(days) IN
               [ok |-> TRUE,
                v |-> [p |-> "datetime", y |-> c.y, mo |-> c.mo, d |-> c.d, h |-> b.r \div 3600, mi |-> (b.r \div 60) % 60,
                       s |-> b.r % 60, us |-> a.r, aware |-> aware, off |-> 0, offus |-> 0]]

\* ---- UUID -----------------------------------------------------------------------------------------
HexCp(n) == IF n < 10 THEN 48 + n ELSE 87 + n
UuidText(hex) ==
  LET h == MapSeq(HexCp, hex) IN
  SubSeq(h, 1, 8) \o <<45>> \o SubSeq(h, 9, 12) \o <<45>> \o SubSeq(h, 13, 16) \o <<45>> \o SubSeq(h, 17, 20) \o <<45>> \o SubSeq(h, 21, 32)
HexVal(c) == IF c >= 48 /\ c <= 57 THEN c - 48 ELSE IF c >= 97 /\ c <= 102 THEN c - 87 ELSE IF c >= 65 /\ c <= 70 THEN c - 55 ELSE 16
\* canonical 8-4-4-4-12 text -> nibbles; [ok, hex]
UuidOfText(cp) ==
  IF Len(cp) # 36 \/ cp[9] # 45 \/ cp[14] # 45 \/ cp[19] # 45 \/ cp[24] # 45 THEN [ok |-> FALSE]
  ELSE LET digits == SubSeq(cp, 1, 8) \o SubSeq(cp, 10, 13) \o SubSeq(cp, 15, 18) \o SubSeq(cp, 20, 23) \o SubSeq(cp, 25, 36)
           hex == MapSeq(HexVal, digits)
       IN IF \E i \in 1..32 : hex[i] = 16 THEN [ok |-> FALSE] ELSE [ok |-> TRUE, hex |-> hex]

\* ---- decimals ---------------------------------------------------------------------------------------
\* strip leading zero digits (keep value); <<>> for zero
RECURSIVE StripZeros(_)
StripZeros(ds) == IF ds = <<>> THEN <<>> ELSE IF ds[1] = 0 THEN StripZeros(Tail(ds)) ELSE ds
\* the conditions under which a decimal must not be stored (C16): too many significant digits, too many fractional digits
DecimalMustRaise(v, prec, scale) == Len(v.digits) > prec \/ v.exp + scale < 0
\* unscaled integer of v at the given scale (defined when v.exp + scale >= 0)
Unscaled(v, scale) == IMk(v.sign = 1, NMul(NFromDigits(v.digits), NPow10(v.exp + scale)))
\* numeric equality of two decimal values
DecEq(a, b) ==
  LET e == IF a.exp < b.exp THEN a.exp ELSE b.exp
      ma == NMul(NFromDigits(a.digits), NPow10(a.exp - e))
      mb == NMul(NFromDigits(b.digits), NPow10(b.exp - e))
  IN ma = mb /\ (ma = <<>> \/ a.sign = b.sign)
\* what read_decimal returns for the unscaled integer x
DecimalOfUnscaled(x, scale) ==
  [p |-> "decimal", sign |-> IF x.neg THEN 1 ELSE 0, digits |-> IF x.mag = <<>> THEN <<0>> ELSE NToDigits(x.mag), exp |-> 0 - scale]
\* number of bytes fastavro's bytes-decimal uses: (bit_length + 8) div 8; any sign-extended length denotes the same number,
\* the property does not demand the minimal one (C16.repr judges the denotation, not the length)
BytesDecimalLen(x) == (NBitLength(x.mag) + 8) \div 8

\* ---- Prep / Unprep --------------------------------------------------------------------------------------
LtOf(t) == IF "lt" \in DOMAIN t THEN t.lt.n ELSE ""
POk(v) == [st |-> "ok", v |-> v]
PRaise == [st |-> "raise"]
PInt(x) == POk([p |-> "int", neg |-> x.neg, mag |-> x.mag])

Prep(t, v) ==
  LET l == LtOf(t) IN
  IF l = "" THEN POk(v)
  ELSE CASE l = "date" /\ v.p = "date" -> PInt(IFromInt(DaysFromCivil(v.y, v.mo, v.d)))
         [] l = "time-millis" /\ v.p = "time" -> PInt(IFromNat(MillisOfDay(v)))
         [] l = "time-micros" /\ v.p = "time" -> PInt(MicrosOfDay(v))
         [] l = "timestamp-micros" /\ v.p = "datetime" -> PInt(EpochMicros(v, v.aware))
         [] l = "timestamp-millis" /\ v.p = "datetime" -> PInt(FloorDiv1000(EpochMicros(v, v.aware)))
         [] l = "local-timestamp-micros" /\ v.p = "datetime" -> PInt(EpochMicros(v, FALSE))
         [] l = "local-timestamp-millis" /\ v.p = "datetime" -> PInt(FloorDiv1000(EpochMicros(v, FALSE)))
         [] l = "uuid" /\ v.p = "uuid" -> POk([p |-> "str", cp |-> UuidText(v.hex)])
         [] l = "decimal" /\ v.p = "decimal" ->
              IF DecimalMustRaise(v, t.lt.prec, t.lt.scale) THEN PRaise
              ELSE LET x == Unscaled(v, t.lt.scale) IN
                   IF t.k = "fixed" THEN (IF t.size >= 1 /\ FitsTwos(x, t.size) THEN POk([p |-> "bytes", by |-> TwosBE(x, t.size)]) ELSE PRaise)
                   ELSE POk([p |-> "bytes", by |-> TwosBE(x, BytesDecimalLen(x))])
         [] l = "decimal" /\ v.p = "decimal_special" -> PRaise
         [] OTHER -> POk(v)

\* x: stored value (int / str / bytes); the reader's conversion. Out-of-range stored numbers give [p |-> "unrepresentable"].
Unprep(t, x) ==
  LET l == LtOf(t)
      bad == [p |-> "unrepresentable"]
      ix == [neg |-> x.neg, mag |-> x.mag]
  IN
  IF l = "" THEN x
  ELSE CASE l = "date" /\ x.p = "int" ->
              IF ~IIsSmall(ix) \/ IToInt(ix) < MinDay \/ IToInt(ix) > MaxDay THEN bad
              ELSE LET c == CivilFromDays(IToInt(ix)) IN [p |-> "date", y |-> c.y, mo |-> c.mo, d |-> c.d]
         [] l = "time-millis" /\ x.p = "int" ->
              IF x.neg \/ ~IIsSmall(ix) \/ IToInt(ix) >= 86400000 THEN bad
              ELSE LET ms == IToInt(ix) IN
                   [p |-> "time", h |-> ms \div 3600000, mi |-> (ms \div 60000) % 60, s |-> (ms \div 1000) % 60, us |-> (ms % 1000) * 1000, aware |-> FALSE]
         [] l = "time-micros" /\ x.p = "int" ->
              LET a == IFloorDivMod(ix, 1000000) IN
              IF x.neg \/ ~IIsSmall(a.q) \/ IToInt(a.q) >= 86400 THEN bad
              ELSE LET sod == IToInt(a.q) IN
                   [p |-> "time", h |-> sod \div 3600, mi |-> (sod \div 60) % 60, s |-> sod % 60, us |-> a.r, aware |-> FALSE]
         [] l \in {"timestamp-micros", "local-timestamp-micros"} /\ x.p = "int" ->
              LET r == DateTimeOfMicros(ix, l = "timestamp-micros") IN IF r.ok THEN r.v ELSE bad
         [] l \in {"timestamp-millis", "local-timestamp-millis"} /\ x.p = "int" ->
              LET r == DateTimeOfMicros(IMulSmall(ix, 1000), l = "timestamp-millis") IN IF r.ok THEN r.v ELSE bad
         [] l = "uuid" /\ x.p = "str" -> LET u == UuidOfText(x.cp) IN IF u.ok THEN [p |-> "uuid", hex |-> u.hex] ELSE bad
         [] l = "decimal" /\ x.p = "bytes" ->
              \* stored integers with more digits than the precision are not decimals of this type (readers round them): no defined value
              \* (readers round to the precision; digits beyond it that are zero lose nothing: 17.0 under precision 2, scale 1)
              IF x.by = <<>> THEN bad
              ELSE LET ds == NToDigits(FromTwosBE(x.by).mag) IN
                   IF Len(ds) > t.lt.prec /\ \E i \in (t.lt.prec + 1)..Len(ds) : ds[i] # 0 THEN bad
                   ELSE DecimalOfUnscaled(FromTwosBE(x.by), t.lt.scale)
         [] OTHER -> x
=============================================================================
