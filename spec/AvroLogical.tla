---------------------------- MODULE AvroLogical ----------------------------
(* Logical types (C16).  Prep(t, v): the value actually stored for v under   *)
(* schema node t: [st |-> "ok", v] | [st |-> "raise"].  Unprep(t, x): what   *)
(* the reader returns for stored x.  STUB: identity (filled in later).       *)
EXTENDS Naturals, Integers, Sequences, SequencesExt, BigNat

Prep(t, v) == [st |-> "ok", v |-> v]
Unprep(t, x) == x
=============================================================================
