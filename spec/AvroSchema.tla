----------------------------- MODULE AvroSchema -----------------------------
(* Raw schema (tagged JSON tree) -> parsed schema tree + name table, per the *)
(* Avro specification's naming rules, as worded in property C11.             *)
(*                                                                           *)
(* Parsed tree T:                                                            *)
(*   [k |-> prim, lt |-> L]            prim in null boolean int long float   *)
(*                                      double bytes string                  *)
(*   [k |-> "ref", name |-> full]                                            *)
(*   [k |-> "record", name, aliases, fields |-> <<[name, type, hasdef, def,  *)
(*                                                 aliases]>>]              *)
(*   [k |-> "enum", name, aliases, syms, hasdef, def]                        *)
(*   [k |-> "fixed", name, aliases, size, lt]                                *)
(*   [k |-> "array", items] [k |-> "map", values] [k |-> "union", br]        *)
(* L = [n |-> ""] | [n |-> "date" ...] | [n |-> "decimal", prec, scale]      *)
(* Result: [ok |-> TRUE, t, st] or [ok |-> FALSE, kind], kind one of         *)
(*   undefined redefined nameless enum-symbol enum-default default-type      *)
(*   decimal   -- the ill-formedness C11 lists (MustRaise)                   *)
(*   other     -- malformed in a way the property does not list (Unspecified)*)
EXTENDS Naturals, Integers, Sequences, SequencesExt, FiniteSets, TLC, Text, BigNat, JTree

K_type == Cps("type")           K_name == Cps("name")       K_namespace == Cps("namespace")
K_fields == Cps("fields")       K_items == Cps("items")     K_values == Cps("values")
K_symbols == Cps("symbols")     K_size == Cps("size")       K_default == Cps("default")
K_aliases == Cps("aliases")     K_logicalType == Cps("logicalType")
K_precision == Cps("precision") K_scale == Cps("scale")     K_doc == Cps("doc")  K_order == Cps("order")

N_null == Cps("null")     N_boolean == Cps("boolean") N_int == Cps("int")       N_long == Cps("long")
N_float == Cps("float")   N_double == Cps("double")   N_bytes == Cps("bytes")   N_string == Cps("string")
N_record == Cps("record") N_error == Cps("error")     N_enum == Cps("enum")     N_fixed == Cps("fixed")
N_array == Cps("array")   N_map == Cps("map")
N_union == Cps("union")

L_date == Cps("date")  L_time_millis == Cps("time-millis")  L_time_micros == Cps("time-micros")
L_ts_millis == Cps("timestamp-millis")  L_ts_micros == Cps("timestamp-micros")
L_lts_millis == Cps("local-timestamp-millis")  L_lts_micros == Cps("local-timestamp-micros")
L_uuid == Cps("uuid")  L_decimal == Cps("decimal")

PrimNames == { N_null, N_boolean, N_int, N_long, N_float, N_double, N_bytes, N_string }
PrimKinds == { "null", "boolean", "int", "long", "float", "double", "bytes", "string" }
PrimKind(cp) == CASE cp = N_null -> "null" [] cp = N_boolean -> "boolean" [] cp = N_int -> "int"
                  [] cp = N_long -> "long" [] cp = N_float -> "float" [] cp = N_double -> "double"
                  [] cp = N_bytes -> "bytes" [] cp = N_string -> "string"
KindName(k) == CASE k = "null" -> N_null [] k = "boolean" -> N_boolean [] k = "int" -> N_int
                 [] k = "long" -> N_long [] k = "float" -> N_float [] k = "double" -> N_double
                 [] k = "bytes" -> N_bytes [] k = "string" -> N_string [] k = "array" -> N_array
                 [] k = "map" -> N_map [] k = "record" -> N_record [] k = "enum" -> N_enum
                 [] k = "fixed" -> N_fixed [] k = "union" -> N_union

NoLt == [n |-> ""]
Err(kind) == [ok |-> FALSE, kind |-> kind]
Ok(t, st) == [ok |-> TRUE, t |-> t, st |-> st]

EmptyFn == [x \in {} |-> 0]
St0 == [seen |-> {}, kindOf |-> EmptyFn, names |-> EmptyFn]
\* state for parsing against a caller dictionary (piecewise parsing)
StFrom(names0) == [seen |-> {}, kindOf |-> [n \in DOMAIN names0 |-> names0[n].k], names |-> names0]

\* ---- names ----------------------------------------------------------------
NsOf(full) == LET i == LastIndexOf(full, DOT) IN IF i = 0 THEN <<>> ELSE SubSeq(full, 1, i - 1)
Unqual(full) == LET i == LastIndexOf(full, DOT) IN SubSeq(full, i + 1, Len(full))
Qualify(nm, ns) == IF HasCp(nm, DOT) \/ ns = <<>> THEN nm ELSE ns \o <<DOT>> \o nm

\* the specification's rule: a dotted name wins, else the explicit namespace, else the enclosing one
NameInfo(o, ns) ==
  LET nm == JGet(o, K_name).cp IN
  IF HasCp(nm, DOT) THEN [full |-> nm, ns |-> NsOf(nm)]
  ELSE LET n2 == IF JHasStr(o, K_namespace) THEN JGet(o, K_namespace).cp ELSE ns
       IN [full |-> Qualify(nm, n2), ns |-> n2]

IsNameCp(s) == /\ Len(s) >= 1 /\ IsAlphaCp(s[1]) /\ \A i \in 2..Len(s) : IsAlnumCp(s[i])

StrList(a) == [i \in 1..Len(a.it) |-> a.it[i].cp]
AllStr(a) == \A i \in 1..Len(a.it) : JIsStr(a.it[i])
AliasesOf(o) == IF JHas(o, K_aliases) /\ JIsArr(JGet(o, K_aliases)) /\ AllStr(JGet(o, K_aliases))
                THEN StrList(JGet(o, K_aliases)) ELSE <<>>

\* ---- logical types ----------------------------------------------------------
IntAttr(o, key) == JGet(o, key)
MaxPrecisionOk(prec, size) == \* 10^prec - 1 fits in 8*size-1 bits  <=>  10^prec < 2^(8 size - 1)
  size >= 1 /\ NLt(NPow10(prec), NPow2(8 * size - 1))

\* [ok |-> TRUE, lt |-> L] | Err
LogicalOf(o, kind, size) ==
  IF ~JHasStr(o, K_logicalType) THEN [ok |-> TRUE, lt |-> NoLt]
  ELSE LET l == JGet(o, K_logicalType).cp
           simple(nm) == [ok |-> TRUE, lt |-> [n |-> nm]]
       IN CASE l = L_date /\ kind = "int" -> simple("date")
            [] l = L_time_millis /\ kind = "int" -> simple("time-millis")
            [] l = L_time_micros /\ kind = "long" -> simple("time-micros")
            [] l = L_ts_millis /\ kind = "long" -> simple("timestamp-millis")
            [] l = L_ts_micros /\ kind = "long" -> simple("timestamp-micros")
            [] l = L_lts_millis /\ kind = "long" -> simple("local-timestamp-millis")
            [] l = L_lts_micros /\ kind = "long" -> simple("local-timestamp-micros")
            [] l = L_uuid /\ kind = "string" -> simple("uuid")
            [] l = L_decimal /\ kind \in {"bytes", "fixed"} ->
                 LET hasP == JHas(o, K_precision)
                     hasS == JHas(o, K_scale)
                     p == JGet(o, K_precision)
                     s == JGet(o, K_scale)
                     pBad == hasP /\ (~JIsInt(p) \/ (JIsInt(p) /\ p.neg))
                     sBad == hasS /\ (~JIsInt(s) \/ (JIsInt(s) /\ s.neg))
                 IN IF pBad \/ sBad THEN Err("decimal")
                    ELSE IF ~hasP \/ p.mag = <<>> \/ ~NIsSmall(p.mag) THEN Err("other")   \* precision absent or 0: not listed
                    ELSE IF hasS /\ ~NIsSmall(s.mag) THEN Err("other")
                    ELSE LET pv == NToNat(p.mag)
                             sv == IF hasS THEN NToNat(s.mag) ELSE 0
                         IN IF sv > pv THEN Err("decimal")
                            ELSE IF kind = "fixed" /\ ~MaxPrecisionOk(pv, size) THEN Err("decimal")
                            ELSE [ok |-> TRUE, lt |-> [n |-> "decimal", prec |-> pv, scale |-> sv]]
            [] OTHER -> [ok |-> TRUE, lt |-> NoLt]      \* unknown / misplaced annotations are ignored

\* ---- defaults -----------------------------------------------------------------
\* "ok" | "bad" (JSON type cannot match) | "unspec"
RECURSIVE DefVerdict(_, _, _)
UnionDefVerdict(brs, d, st) ==
  LET vs == [i \in 1..Len(brs) |-> DefVerdict(brs[i], d, st)] IN
  IF \E i \in 1..Len(brs) : vs[i] = "ok" THEN "ok"
  ELSE IF \E i \in 1..Len(brs) : vs[i] = "unspec" THEN "unspec" ELSE "bad"
DefVerdict(t, d, st) ==
  LET yes(c) == IF c THEN "ok" ELSE "bad" IN
  CASE t.k = "null" -> yes(JIsNull(d))
    [] t.k = "boolean" -> yes(JIsBool(d))
    [] t.k = "int" -> IF JIsInt(d) THEN (IF InInt32(d) THEN "ok" ELSE "unspec") ELSE "bad"
    [] t.k = "long" -> IF JIsInt(d) THEN (IF InInt64(d) THEN "ok" ELSE "unspec") ELSE "bad"
    [] t.k \in {"float", "double"} -> IF JIsNum(d) THEN "ok" ELSE IF JIsStr(d) THEN "unspec" ELSE "bad"
    [] t.k \in {"string", "bytes", "fixed", "enum"} -> yes(JIsStr(d))
    [] t.k = "array" -> yes(JIsArr(d))
    [] t.k \in {"map", "record"} -> yes(JIsObj(d))
    [] t.k = "ref" -> IF st.kindOf[t.name] = "record" THEN yes(JIsObj(d)) ELSE yes(JIsStr(d))
    [] t.k = "union" -> UnionDefVerdict(t.br, d, st)

\* ---- the parser ---------------------------------------------------------------
RECURSIVE ParseType(_, _, _), ParseSeqFrom(_, _, _, _, _), ParseFieldsFrom(_, _, _, _, _)

ParseSeqFrom(xs, i, ns, st, acc) ==
  IF i > Len(xs) THEN [ok |-> TRUE, ts |-> acc, st |-> st]
  ELSE LET r == ParseType(xs[i], ns, st) IN
       IF r.ok THEN ParseSeqFrom(xs, i + 1, ns, r.st, Append(acc, r.t)) ELSE r

ParseFieldsFrom(fs, i, ns, st, acc) ==
  IF i > Len(fs) THEN [ok |-> TRUE, fs |-> acc, st |-> st]
  ELSE LET fo == fs[i] IN
       IF ~JIsObj(fo) \/ ~JHasStr(fo, K_name) \/ ~JHas(fo, K_type) THEN Err("other")
       ELSE LET r == ParseType(JGet(fo, K_type), ns, st) IN
            IF ~r.ok THEN r
            ELSE LET hasdef == JHas(fo, K_default)
                     d == JGet(fo, K_default)
                     dv == IF hasdef THEN DefVerdict(r.t, d, r.st) ELSE "ok"
                     fld == [name |-> JGet(fo, K_name).cp, type |-> r.t, hasdef |-> hasdef,
                             def |-> d, aliases |-> AliasesOf(fo)]
                 IN IF dv = "bad" THEN Err("default-type")
                    ELSE IF dv = "unspec" THEN Err("other")
                    ELSE ParseFieldsFrom(fs, i + 1, ns, r.st, Append(acc, fld))

Define(st, full, kind) == [st EXCEPT !.seen = @ \cup {full}, !.kindOf = (full :> kind) @@ @]
Bind(st, full, node) == [st EXCEPT !.names = (full :> node) @@ @]

ParseType(x, ns, st) ==
  IF JIsStr(x) THEN
     IF x.cp \in PrimNames THEN Ok([k |-> PrimKind(x.cp), lt |-> NoLt], st)
     \* "flat" reading (the form parse_schema returns): a reference is spelled with the full name of its definition, taken literally
     ELSE LET full == IF "flat" \in DOMAIN st /\ st.flat THEN x.cp ELSE Qualify(x.cp, ns) IN
          IF full \in DOMAIN st.kindOf THEN Ok([k |-> "ref", name |-> full], st)
          \* a schema repository (C19): an undefined name that names a file is defined right here, at its first use,
          \* by that file's schema (a file is a schema of its own: no enclosing namespace)
          ELSE IF "repo" \in DOMAIN st /\ full \in DOMAIN st.repo THEN ParseType(st.repo[full], <<>>, st)
          ELSE [ok |-> FALSE, kind |-> "undefined", name |-> full]
  ELSE IF JIsArr(x) THEN
     LET r == ParseSeqFrom(x.it, 1, ns, st, <<>>) IN
     IF r.ok THEN Ok([k |-> "union", br |-> r.ts], r.st) ELSE r
  ELSE IF ~JIsObj(x) THEN Err("other")
  ELSE IF ~JHasStr(x, K_type) THEN Err("other")
  ELSE LET ty == JGet(x, K_type).cp IN
    IF ty \in PrimNames THEN
       LET kd == PrimKind(ty)
           l == LogicalOf(x, kd, 0)
       IN IF l.ok THEN Ok([k |-> kd, lt |-> l.lt], st) ELSE l
    ELSE IF ty = N_array THEN
       IF ~JHas(x, K_items) THEN Err("other")
       ELSE LET r == ParseType(JGet(x, K_items), ns, st) IN
            IF r.ok THEN Ok([k |-> "array", items |-> r.t], r.st) ELSE r
    ELSE IF ty = N_map THEN
       IF ~JHas(x, K_values) THEN Err("other")
       ELSE LET r == ParseType(JGet(x, K_values), ns, st) IN
            IF r.ok THEN Ok([k |-> "map", values |-> r.t], r.st) ELSE r
    ELSE IF ty \in {N_enum, N_fixed, N_record, N_error} THEN
       IF ~JHasStr(x, K_name) THEN Err("nameless")
       ELSE LET ni == NameInfo(x, ns) IN
         IF ni.full \in st.seen THEN Err("redefined")
         ELSE IF ty = N_enum THEN
            LET sy == JGet(x, K_symbols) IN
            IF ~JHas(x, K_symbols) \/ ~JIsArr(sy) THEN Err("other")
            ELSE IF ~AllStr(sy) THEN Err("enum-symbol")
            ELSE LET syms == StrList(sy) IN
                 IF ~(\A i \in 1..Len(syms) : IsNameCp(syms[i])) \/ ~NoDup(syms) THEN Err("enum-symbol")
                 ELSE IF JHas(x, K_default) /\ (~JIsStr(JGet(x, K_default)) \/ ~InSeq(syms, JGet(x, K_default).cp))
                      THEN Err("enum-default")
                 ELSE LET node == [k |-> "enum", name |-> ni.full, aliases |-> AliasesOf(x), syms |-> syms,
                                   hasdef |-> JHas(x, K_default),
                                   def |-> IF JHas(x, K_default) THEN JGet(x, K_default).cp ELSE <<>>]
                      IN Ok(node, Bind(Define(st, ni.full, "enum"), ni.full, node))
         ELSE IF ty = N_fixed THEN
            LET sz == JGet(x, K_size) IN
            IF ~JHas(x, K_size) \/ ~JIsInt(sz) \/ sz.neg \/ ~NIsSmall(sz.mag) THEN Err("other")
            ELSE LET size == NToNat(sz.mag)
                     l == LogicalOf(x, "fixed", size)
                 IN IF ~l.ok THEN l
                    ELSE LET node == [k |-> "fixed", name |-> ni.full, aliases |-> AliasesOf(x), size |-> size, lt |-> l.lt]
                         IN Ok(node, Bind(Define(st, ni.full, "fixed"), ni.full, node))
         ELSE \* record / error
            LET st1 == Define(st, ni.full, "record")
                fl == JGet(x, K_fields)
                flds == IF JHas(x, K_fields) /\ JIsArr(fl) THEN fl.it ELSE <<>>
                r == ParseFieldsFrom(flds, 1, ni.ns, st1, <<>>)
            IN IF JHas(x, K_fields) /\ ~JIsArr(fl) THEN Err("other")
               ELSE IF ~r.ok THEN r
               ELSE IF ~NoDup([i \in 1..Len(r.fs) |-> r.fs[i].name]) THEN Err("other")
               ELSE LET node == [k |-> "record", name |-> ni.full, aliases |-> AliasesOf(x), fields |-> r.fs]
                    IN Ok(node, Bind(r.st, ni.full, node))
    ELSE Err("other")

Parse(raw) == ParseType(raw, <<>>, St0)
\* parsing with a repository of per-type schemas: name -> raw schema
ParseRepo(raw, repo) == ParseType(raw, <<>>, [seen |-> {}, kindOf |-> EmptyFn, names |-> EmptyFn, repo |-> repo])
ParseWith(raw, names0) == ParseType(raw, <<>>, StFrom(names0))
ParseFlat(raw) == ParseType(raw, <<>>, [seen |-> {}, kindOf |-> EmptyFn, names |-> EmptyFn, flat |-> TRUE])

\* ---- helpers over parsed trees --------------------------------------------------
Deref(t, names) == IF t.k = "ref" THEN names[t.name] ELSE t
IsNamedKind(k) == k \in {"record", "enum", "fixed"}

\* the "name" of a union branch: full name for named types, else the type name
BranchName(t, names) ==
  LET d == Deref(t, names) IN IF IsNamedKind(d.k) THEN d.name ELSE KindName(d.k)

\* A named type in the null namespace defined inside a type with a namespace: the Parsing Canonical Form (full names, no namespace
\* attribute) cannot express it - re-reading "E" inside "a.R" yields "a.E". The canonical form's fixed point and "valid schema with the
\* same names" are then not defined by the Avro specification itself (Unspecified in C11.tree / C13).
RECURSIVE NullNsInside(_, _)
NullNsInside(t, ens) ==
  CASE t.k = "record" -> (ens # <<>> /\ NsOf(t.name) = <<>>)
                         \/ \E i \in 1..Len(t.fields) : NullNsInside(t.fields[i].type, NsOf(t.name))
    [] t.k \in {"enum", "fixed"} -> ens # <<>> /\ NsOf(t.name) = <<>>
    [] t.k = "array" -> NullNsInside(t.items, ens)
    [] t.k = "map" -> NullNsInside(t.values, ens)
    [] t.k = "union" -> \E i \in 1..Len(t.br) : NullNsInside(t.br[i], ens)
    [] OTHER -> FALSE

RECURSIVE NodeCount(_)
NodeCount(t) ==
  CASE t.k = "record" -> 1 + FoldLeft(LAMBDA a, f : a + NodeCount(f.type), 0, t.fields)
    [] t.k = "array" -> 1 + NodeCount(t.items)
    [] t.k = "map" -> 1 + NodeCount(t.values)
    [] t.k = "union" -> 1 + FoldLeft(LAMBDA a, b : a + NodeCount(b), 0, t.br)
    [] OTHER -> 1
=============================================================================
