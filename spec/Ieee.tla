------------------------------- MODULE Ieee -------------------------------
(* IEEE-754 binary64 / binary32 as bit fields.                              *)
(* A Python float is [sgn |-> 0|1, exp |-> 0..2047, man |-> 13 nibbles      *)
(* (most significant first)], obtained by the projection from float.hex(),  *)
(* a text path that shares nothing with struct.pack.                        *)
EXTENDS Naturals, Integers, Sequences, SequencesExt, BigNat

NibbleBits(x) == << (x \div 8) % 2, (x \div 4) % 2, (x \div 2) % 2, x % 2 >>
ManBits(man) == NibbleBits(man[1]) \o NibbleBits(man[2]) \o NibbleBits(man[3]) \o NibbleBits(man[4])
             \o NibbleBits(man[5]) \o NibbleBits(man[6]) \o NibbleBits(man[7]) \o NibbleBits(man[8])
             \o NibbleBits(man[9]) \o NibbleBits(man[10]) \o NibbleBits(man[11]) \o NibbleBits(man[12])
             \o NibbleBits(man[13])
\* 52 bits (MSB first) -> 13 nibbles
BitsToNibbles(b) == [ i \in 1..13 |-> 8 * b[4*i-3] + 4 * b[4*i-2] + 2 * b[4*i-1] + b[4*i] ]
ZeroMan == <<0,0,0,0,0,0,0,0,0,0,0,0,0>>
Zeros(n) == [ i \in 1..n |-> 0 ]

\* value of an MSB-first bit sequence (< 2^31)
BitsVal(bs) == FoldLeft(LAMBDA acc, b : 2 * acc + b, 0, bs)
AnyOne(bs) == \E i \in 1..Len(bs) : bs[i] = 1
\* MSB-first bits of n in exactly w bits
RECURSIVE NatBits(_, _)
NatBits(n, w) == IF w = 0 THEN <<>> ELSE NatBits(n \div 2, w - 1) \o << n % 2 >>

IsFloatVal(f) == /\ f.sgn \in {0, 1} /\ f.exp \in 0..2047
                 /\ Len(f.man) = 13 /\ \A i \in 1..13 : f.man[i] \in 0..15
IsNaN(f)  == f.exp = 2047 /\ f.man # ZeroMan
IsInf(f)  == f.exp = 2047 /\ f.man = ZeroMan
IsFinite(f) == f.exp < 2047
IsZero(f) == f.exp = 0 /\ f.man = ZeroMan
FMk(s, e, m) == [sgn |-> s, exp |-> e, man |-> m]

\* ---- binary64 layout ------------------------------------------------------
DoubleBytesLE(f) ==
  << f.man[12] * 16 + f.man[13], f.man[10] * 16 + f.man[11], f.man[8] * 16 + f.man[9],
     f.man[6] * 16 + f.man[7],   f.man[4] * 16 + f.man[5],   f.man[2] * 16 + f.man[3],
     (f.exp % 16) * 16 + f.man[1], f.sgn * 128 + (f.exp \div 16) >>
DoubleFromBytesLE(b) ==
  FMk(b[8] \div 128, (b[8] % 128) * 16 + (b[7] \div 16),
      << b[7] % 16, b[6] \div 16, b[6] % 16, b[5] \div 16, b[5] % 16, b[4] \div 16, b[4] % 16,
         b[3] \div 16, b[3] % 16, b[2] \div 16, b[2] % 16, b[1] \div 16, b[1] % 16 >>)

\* ---- binary64 -> binary32, round to nearest even ----------------------------
P23 == 8388608
\* [ok |-> TRUE, sgn, pat] where pat is the 31-bit exponent+fraction pattern, or [ok |-> FALSE] on overflow
ToF32(f) ==
  IF f.exp = 2047 THEN
     IF f.man = ZeroMan THEN [ok |-> TRUE, sgn |-> f.sgn, pat |-> 255 * P23]
     ELSE LET top == BitsVal(SubSeq(ManBits(f.man), 1, 23))
              q == IF top < 4194304 THEN top + 4194304 ELSE top      \* quiet bit
          IN [ok |-> TRUE, sgn |-> f.sgn, pat |-> 255 * P23 + q]
  ELSE IF f.exp = 0 THEN [ok |-> TRUE, sgn |-> f.sgn, pat |-> 0]
  ELSE LET e == f.exp - 1023
           S == <<1>> \o ManBits(f.man)                 \* 53 bits, S[1] has weight 2^e
       IN IF e > 127 THEN [ok |-> FALSE]
          ELSE LET shift == IF e >= -126 THEN 0 ELSE -126 - e
                   keep  == IF shift >= 24 THEN 0 ELSE 24 - shift
                   base  == IF e >= -126 THEN (e + 126) * P23 ELSE 0
                   q     == IF keep = 0 THEN 0 ELSE BitsVal(SubSeq(S, 1, keep))
                   rpos  == 25 - shift                   \* position of the round bit in S (may be < 1)
                   rbit  == IF rpos >= 1 THEN S[rpos] ELSE 0
                   stick == IF rpos >= 1 THEN AnyOne(SubSeq(S, rpos + 1, 53)) ELSE TRUE
                   up    == rbit = 1 /\ (stick \/ q % 2 = 1)
                   pat   == base + q + (IF up THEN 1 ELSE 0)
               IN IF pat >= 255 * P23 THEN [ok |-> FALSE] ELSE [ok |-> TRUE, sgn |-> f.sgn, pat |-> pat]

F32BytesLE(r) == << r.pat % 256, (r.pat \div 256) % 256, (r.pat \div 65536) % 256, r.sgn * 128 + (r.pat \div 16777216) >>
F32FromBytesLE(b) == [ok |-> TRUE, sgn |-> b[4] \div 128, pat |-> (b[4] % 128) * 16777216 + b[3] * 65536 + b[2] * 256 + b[1]]

RECURSIVE BitLen(_)
BitLen(n) == IF n = 0 THEN 0 ELSE 1 + BitLen(n \div 2)

\* binary32 pattern -> the binary64 with the same value
F32ToDouble(r) ==
  LET e8 == r.pat \div P23
      fr == r.pat % P23
  IN IF e8 = 255 THEN FMk(r.sgn, 2047, BitsToNibbles(NatBits(fr, 23) \o Zeros(29)))
     ELSE IF e8 = 0 THEN
          IF fr = 0 THEN FMk(r.sgn, 0, ZeroMan)
          ELSE LET L == BitLen(fr)                       \* value = fr * 2^-149 = 1.x * 2^(L - 150)
               IN FMk(r.sgn, L - 150 + 1023, BitsToNibbles(NatBits(fr % (IF L = 1 THEN 1 ELSE 2 ^ (L - 1)), L - 1) \o Zeros(53 - L)))
     ELSE FMk(r.sgn, e8 - 127 + 1023, BitsToNibbles(NatBits(fr, 23) \o Zeros(29)))

\* value stored for a Python float under an Avro 'float' schema, read back as a Python float
RoundToF32(f) == LET r == ToF32(f) IN IF r.ok THEN [ok |-> TRUE, f |-> F32ToDouble(r)] ELSE [ok |-> FALSE]
F32Representable(f) == LET r == ToF32(f) IN r.ok /\ (IsNaN(f) \/ F32ToDouble(r) = f)

\* ---- Python int -> float (round to nearest even); [ok, f] ----------------------
IntToDouble(x) ==
  LET bits == Reverse(NToBitsLE(x.mag))                 \* MSB first
      L == Len(bits)
      s == IF x.neg THEN 1 ELSE 0
  IN IF L = 0 THEN [ok |-> TRUE, f |-> FMk(0, 0, ZeroMan)]
     ELSE IF L <= 53 THEN [ok |-> TRUE, f |-> FMk(s, 1023 + L - 1, BitsToNibbles(SubSeq(bits, 2, L) \o Zeros(53 - L)))]
     ELSE LET frac == SubSeq(bits, 2, 53)                \* 52 bits
              rbit == bits[54]
              stick == AnyOne(SubSeq(bits, 55, L))
              odd == bits[53] = 1
              up == rbit = 1 /\ (stick \/ odd)
              \* add one to the 52-bit fraction with carry
              fracN == NFromBitsLE(Reverse(frac))
              sumN == IF up THEN NAddSmall(fracN, 1) ELSE fracN
              sumBits == Reverse(NToBitsLE(sumN))       \* MSB first, trimmed
              carry == Len(sumBits) = 53
              e == 1023 + L - 1 + (IF carry THEN 1 ELSE 0)
              man == IF carry THEN ZeroMan ELSE BitsToNibbles(Zeros(52 - Len(sumBits)) \o sumBits)
          IN IF e >= 2047 THEN [ok |-> FALSE] ELSE [ok |-> TRUE, f |-> FMk(s, e, man)]
=============================================================================
