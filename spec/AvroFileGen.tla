----------------------------- MODULE AvroFileGen -----------------------------
(* An "independent writer" of container files (C05): every layout-valid file  *)
(* for given records - any partition of the records into blocks including     *)
(* empty blocks, the header's metadata map split into any number of chunks in *)
(* either count form, the codec key present or absent (absent = null).        *)
(* Steered by a choice stream.  Compression stays uninterpreted: the spec      *)
(* emits the header bytes and, per block, the record count and the plain       *)
(* payload; the harness compresses payloads with the standard library and      *)
(* frames them, and AvroFile!ParseFile re-validates the assembled file.        *)
EXTENDS Naturals, Integers, Sequences, SequencesExt, FiniteSets, TLC, Text, BigNat, Utf8, AvroSchema, AvroValue, AvroBinary, AvroLayout, AvroFile

\* entries: sequence of [k |-> text, v |-> bytes]
MetaParts(entries) == MapSeq(LAMBDA e : [b |-> StrBytes(e.k) \o VarintNat(Len(e.v)) \o e.v, ix |-> <<>>], entries)
HeaderBytes(entries, sync, ch) ==
  LET bl == Blocks(MetaParts(entries), 1, ch, [b |-> <<>>, ix |-> <<>>]) IN
  [b |-> Magic \o bl.b \o sync, ch |-> bl.ch]

\* partition encodings encs[from..] into blocks [count, payload]; empty blocks are interspersed
RECURSIVE RecBlocks(_, _, _, _)
RecBlocks(encs, from, ch, acc) ==
  LET n == Len(encs) IN
  IF Pick(ch) % 5 = 0 /\ Len(acc) < n + 3
  THEN RecBlocks(encs, from, Adv(ch, 1), Append(acc, [count |-> 0, payload |-> <<>>]))
  ELSE IF from > n THEN acc
  ELSE LET rem == n - from + 1
           c1 == Pick(Adv(ch, 1))
           size == IF c1 % 4 = 0 THEN rem ELSE 1 + (c1 % rem)
       IN RecBlocks(encs, from + size, Adv(ch, 2),
                    Append(acc, [count |-> size, payload |-> Concat(SubSeq(encs, from, from + size - 1))]))

\* [ok, hdr (bytes incl. sync), blocks <<[count, payload]>>, expect <<V>>]
GenFile(schemaText, schemaTree, records, codec, withCodecKey, userMeta, sync, choices) ==
  LET P == Parse(schemaTree)
      o == [strict |-> FALSE, tuples |-> TRUE]
  IN IF ~P.ok THEN [st |-> "H.schema"]
     ELSE LET encs == MapSeq(LAMBDA r : Encode(P.t, r, P.st.names, o), records)
              nrm == MapSeq(LAMBDA r : Norm(P.t, r, P.st.names, o), records)
          IN IF \E i \in 1..Len(records) : ~Conforms(P.t, records[i], P.st.names, o) THEN [st |-> "H.conforms"]
             ELSE IF \E i \in 1..Len(encs) : ~encs[i].ok \/ ~nrm[i].ok THEN [st |-> "unspec"]
             ELSE LET entries == << [k |-> K_avro_schema, v |-> schemaText] >>
                                 \o (IF withCodecKey THEN << [k |-> K_avro_codec, v |-> Utf8Enc(codec)] >> ELSE <<>>)
                                 \o userMeta
                      \* the order of the entries is itself a choice
                      rot == Pick([s |-> choices, i |-> 0]) % Len(entries)
                      ents == SubSeq(entries, rot + 1, Len(entries)) \o SubSeq(entries, 1, rot)
                      h == HeaderBytes(ents, sync, [s |-> choices, i |-> 1])
                  IN [st |-> "ok", hdr |-> h.b,
                      blocks |-> RecBlocks(MapSeq(LAMBDA e : e.b, encs), 1, h.ch, <<>>),
                      expect |-> MapSeq(LAMBDA r : r.v, nrm)]
=============================================================================
