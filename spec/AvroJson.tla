------------------------------ MODULE AvroJson ------------------------------
(* The Avro JSON encoding (C15), on JSON trees:                               *)
(*  null -> null; a non-null union value -> {branch label: value} with the    *)
(*  full name as label for named types (bare value when write_union_type is   *)
(*  off); bytes / fixed -> strings of code points 0..255; enums -> symbol;    *)
(*  maps and records -> objects; arrays -> arrays; numbers -> numbers.        *)
EXTENDS Naturals, Integers, Sequences, SequencesExt, FiniteSets, TLC, Text, BigNat, Ieee, JTree, AvroSchema, AvroValue

JObj(ks, vs) == [j |-> "o", ks |-> ks, vs |-> vs]
JArr(it) == [j |-> "a", it |-> it]
JInt(x) == [j |-> "i", neg |-> x.neg, mag |-> x.mag]
JFloat(f) == [j |-> "f", sgn |-> f.sgn, exp |-> f.exp, man |-> f.man]
JBool(b) == [j |-> "b", b |-> b]

\* label of a union branch in the JSON encoding
BranchLabel(t, names) == BranchName(t, names)

\* [ok |-> TRUE, j] | [ok |-> FALSE]   (FALSE: outside the domain - non-finite floats, unspecified union choice, ...)
RECURSIVE JEnc(_, _, _, _, _)
JOk(j) == [ok |-> TRUE, j |-> j]
JBad == [ok |-> FALSE]
JEncSeq(t, xs, names, o, wut) ==
  LET rs == MapSeq(LAMBDA x : JEnc(t, x, names, o, wut), xs) IN
  IF \A i \in 1..Len(rs) : rs[i].ok THEN [ok |-> TRUE, js |-> MapSeq(LAMBDA r : r.j, rs)] ELSE JBad
JEnc(t0, v0, names, o, wut) ==
  LET t == Deref(t0, names)
      pr == Prep(t, v0)
      v == pr.v
  IN IF pr.st # "ok" THEN JBad ELSE
  CASE t.k = "null" -> JOk(JNull)
    [] t.k = "boolean" -> JOk(JBool(v.b))
    [] t.k \in {"int", "long"} -> JOk(JInt(IOf(v)))
    [] t.k \in {"float", "double"} ->
         IF v.p = "int" THEN JOk(JInt(IOf(v)))
         ELSE IF IsFinite(FOf(v)) THEN JOk(JFloat(FOf(v))) ELSE JBad          \* JSON has no spelling for NaN / Infinity
    [] t.k = "string" -> JOk(JStr(v.cp))
    [] t.k \in {"bytes", "fixed"} -> JOk(JStr(v.by))                            \* one code point 0..255 per byte
    [] t.k = "enum" -> JOk(JStr(v.cp))
    [] t.k = "array" -> LET r == JEncSeq(t.items, v.it, names, o, wut) IN IF r.ok THEN JOk(JArr(r.js)) ELSE JBad
    [] t.k = "map" -> LET r == JEncSeq(t.values, v.vs, names, o, wut) IN
                      IF r.ok THEN JOk(JObj(MapSeq(LAMBDA k : k.cp, v.ks), r.js)) ELSE JBad
    [] t.k = "record" ->
         LET rs == MapSeq(LAMBDA f : JEnc(f.type, FieldSrc(f, v), names, o, wut), t.fields) IN
         IF \A i \in 1..Len(rs) : rs[i].ok
         THEN JOk(JObj(MapSeq(LAMBDA f : f.name, t.fields), MapSeq(LAMBDA r : r.j, rs))) ELSE JBad
    [] t.k = "union" ->
         LET c == ChooseBranch(t.br, v, names, o) IN
         IF c.st # "ok" THEN JBad
         ELSE LET b == Deref(t.br[c.i], names)
                  r == JEnc(t.br[c.i], c.v, names, o, wut)
              IN IF ~r.ok THEN JBad
                 ELSE IF b.k = "null" \/ ~wut THEN r
                 ELSE JOk(JObj(<< BranchLabel(t.br[c.i], names) >>, << r.j >>))
JsonEnc(t, v, names, o, wut) == JEnc(t, v, names, o, wut)

\* equality of JSON trees: objects as mappings, numbers by value (5 = 5.0)
NumEq(a, b) ==
  IF a.j = b.j THEN a = b
  ELSE LET i == IF a.j = "i" THEN a ELSE b
           f == IF a.j = "f" THEN a ELSE b
           d == IntToDouble([neg |-> i.neg, mag |-> i.mag])
       IN d.ok /\ d.f = [sgn |-> f.sgn, exp |-> f.exp, man |-> f.man]
RECURSIVE JEq(_, _)
JEq(a, b) ==
  IF a = b THEN TRUE
  ELSE IF a.j \in {"i", "f"} /\ b.j \in {"i", "f"} THEN NumEq(a, b)
  ELSE IF a.j # b.j THEN FALSE
  ELSE CASE a.j = "a" -> Len(a.it) = Len(b.it) /\ \A i \in 1..Len(a.it) : JEq(a.it[i], b.it[i])
         [] a.j = "o" -> /\ Len(a.ks) = Len(b.ks) /\ NoDup(a.ks)
                         /\ \A i \in 1..Len(a.ks) : LET k == IndexIn(b.ks, a.ks[i]) IN k > 0 /\ JEq(a.vs[i], b.vs[k])
         [] OTHER -> FALSE

\* equality of values with numbers compared by value (an int and a float of equal value are equal)
RECURSIVE VEqN(_, _)
VEqN(a, b) ==
  IF a = b THEN TRUE
  ELSE IF a.p \in {"int", "float"} /\ b.p \in {"int", "float"} /\ a.p # b.p THEN
       LET i == IF a.p = "int" THEN a ELSE b
           f == IF a.p = "float" THEN a ELSE b
           d == IntToDouble(IOf(i))
       IN d.ok /\ d.f = FOf(f)
  ELSE IF a.p # b.p THEN FALSE
  ELSE CASE a.p \in {"list", "tuple"} -> Len(a.it) = Len(b.it) /\ \A i \in 1..Len(a.it) : VEqN(a.it[i], b.it[i])
         [] a.p = "dict" -> /\ Len(a.ks) = Len(b.ks)
                            /\ \A i \in 1..Len(a.ks) : LET k == IndexIn(b.ks, a.ks[i]) IN k > 0 /\ VEqN(a.vs[i], b.vs[k])
         [] OTHER -> VEq(a, b)
=============================================================================
