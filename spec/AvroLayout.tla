----------------------------- MODULE AvroLayout -----------------------------
(* Every specification-valid layout of a value (C03): arrays and maps split  *)
(* into any number of blocks, each announced by a positive count or by a     *)
(* negative count followed by the block's byte size.  The partition is       *)
(* steered by a choice stream so that TLC can be driven through layouts of   *)
(* large values; the positions of all union / enum indices are reported so   *)
(* that out-of-range indices can be planted.                                 *)
EXTENDS Naturals, Integers, Sequences, SequencesExt, FiniteSets, TLC, Text, BigNat, AvroSchema, AvroValue, AvroBinary

Pick(ch) == ch.s[(ch.i % Len(ch.s)) + 1]
Adv(ch, k) == [ch EXCEPT !.i = @ + k]
Shift(ix, d) == MapSeq(LAMBDA e : [e EXCEPT !.pos = @ + d], ix)

LOk(b, ch, ix) == [ok |-> TRUE, b |-> b, ch |-> ch, ix |-> ix]
LBad(ch) == [ok |-> FALSE, ch |-> ch]

RECURSIVE EncL(_, _, _, _, _)

\* encode a sequence of parts one after another; part(x, ch) gives an LOk/LBad; returns the list of [b, ix] and the stream
PartsFold(Part(_, _), xs, ch0) ==
  FoldLeft(LAMBDA acc, x : IF ~acc.ok THEN acc
                           ELSE LET r == Part(x, acc.ch) IN
                                IF r.ok THEN [ok |-> TRUE, ps |-> Append(acc.ps, [b |-> r.b, ix |-> r.ix]), ch |-> r.ch]
                                ELSE [ok |-> FALSE, ps |-> acc.ps, ch |-> r.ch],
           [ok |-> TRUE, ps |-> <<>>, ch |-> ch0], xs)

\* concatenate parts ps[from..to], shifting their index positions
JoinParts(ps, from, to) ==
  FoldLeft(LAMBDA acc, k : [b |-> acc.b \o ps[k].b, ix |-> acc.ix \o Shift(ps[k].ix, Len(acc.b))],
           [b |-> <<>>, ix |-> <<>>], [k \in 1..(to - from + 1) |-> from + k - 1])

\* split parts into blocks as the choice stream dictates, append the terminator
RECURSIVE Blocks(_, _, _, _)
Blocks(ps, from, ch, acc) ==
  LET n == Len(ps) IN
  IF from > n THEN [b |-> acc.b \o <<0>>, ix |-> acc.ix, ch |-> ch]
  ELSE LET rem == n - from + 1
           c1 == Pick(ch)
           size == IF c1 % 3 = 0 THEN rem ELSE 1 + (c1 % rem)
           neg == Pick(Adv(ch, 1)) % 2 = 1
           body == JoinParts(ps, from, from + size - 1)
           hdr == IF neg THEN VarintInt(0 - size) \o VarintNat(Len(body.b)) ELSE VarintNat(size)
       IN Blocks(ps, from + size, Adv(ch, 2),
                 [b |-> acc.b \o hdr \o body.b, ix |-> acc.ix \o Shift(body.ix, Len(acc.b) + Len(hdr))])

EncL(t0, v0, names, o, ch) ==
  LET t == Deref(t0, names)
      pr == Prep(t, v0)
      v == pr.v
  IN IF pr.st # "ok" THEN LBad(ch) ELSE
  CASE t.k \in {"null", "boolean", "int", "long", "float", "double", "bytes", "string", "fixed"} ->
         LET e == Enc(t, v, names, o) IN IF e.ok THEN LOk(e.b, ch, <<>>) ELSE LBad(ch)
    [] t.k = "enum" ->
         LET e == Enc(t, v, names, o) IN
         IF e.ok THEN LOk(e.b, ch, << [pos |-> 0, len |-> Len(e.b), n |-> Len(t.syms)] >>) ELSE LBad(ch)
    [] t.k = "union" ->
         LET c == ChooseBranch(t.br, v, names, o) IN
         IF c.st # "ok" THEN LBad(ch)
         ELSE LET ib == VarintNat(c.i - 1)
                  r == EncL(t.br[c.i], c.v, names, o, ch)
              IN IF r.ok THEN LOk(ib \o r.b, r.ch, << [pos |-> 0, len |-> Len(ib), n |-> Len(t.br)] >> \o Shift(r.ix, Len(ib)))
                 ELSE r
    [] t.k = "record" ->
         IF v.p # "dict" THEN LBad(ch)
         ELSE LET r == PartsFold(LAMBDA f, c : EncL(f.type, FieldSrc(f, v), names, o, c), t.fields, ch) IN
              IF ~r.ok THEN LBad(r.ch)
              ELSE LET j == JoinParts(r.ps, 1, Len(r.ps)) IN LOk(j.b, r.ch, j.ix)
    [] t.k = "array" ->
         IF ~IsSeqVal(v, o, FALSE) THEN LBad(ch)
         ELSE LET r == PartsFold(LAMBDA x, c : EncL(t.items, x, names, o, c), v.it, ch) IN
              IF ~r.ok THEN LBad(r.ch)
              ELSE LET bl == Blocks(r.ps, 1, r.ch, [b |-> <<>>, ix |-> <<>>]) IN LOk(bl.b, bl.ch, bl.ix)
    [] t.k = "map" ->
         IF v.p # "dict" \/ ~(\A i \in 1..Len(v.ks) : v.ks[i].p = "str" /\ AllScalar(v.ks[i].cp)) THEN LBad(ch)
         ELSE LET r == PartsFold(LAMBDA i, c : LET e == EncL(t.values, v.vs[i], names, o, c)
                                                   kb == StrBytes(v.ks[i].cp)
                                               IN IF e.ok THEN LOk(kb \o e.b, e.ch, Shift(e.ix, Len(kb))) ELSE e,
                                 [i \in 1..Len(v.ks) |-> i], ch)
              IN IF ~r.ok THEN LBad(r.ch)
                 ELSE LET bl == Blocks(r.ps, 1, r.ch, [b |-> <<>>, ix |-> <<>>]) IN LOk(bl.b, bl.ch, bl.ix)

EncodeLayout(t, v, names, o, choices) == EncL(t, v, names, o, [s |-> choices, i |-> 0])
=============================================================================
