---------------------------- MODULE AvroResolve ----------------------------
(* Schema resolution (C08): the value a reader obtains from data written     *)
(* under writer schema w when it reads with reader schema r, clause by       *)
(* clause from the Avro specification as worded in the property.             *)
(* Res returns [st |-> "ok", v, p] | [st |-> "raise"] (a schema-resolution   *)
(* error is due) | [st |-> "unspec"] | [st |-> "eof"|"index"] (bad input).   *)
EXTENDS Naturals, Integers, Sequences, SequencesExt, FiniteSets, TLC, Text, BigNat, Utf8, Ieee, JTree, AvroSchema, AvroValue, AvroBinary

RRaise == [st |-> "raise"]
RUnspec == [st |-> "unspec"]

\* ---- matching ---------------------------------------------------------------------------------
NameMatch(w, r) == \/ Unqual(w.name) = Unqual(r.name)
                   \/ InSeq(r.aliases, w.name) \/ InSeq(r.aliases, Unqual(w.name))

Promotable(wk, rk) == \/ (wk = "int" /\ rk \in {"long", "float", "double"})
                      \/ (wk = "long" /\ rk \in {"float", "double"})
                      \/ (wk = "float" /\ rk = "double")
                      \/ (wk = "string" /\ rk = "bytes") \/ (wk = "bytes" /\ rk = "string")

\* "the same type" (the specification's "to match"): same primitive; same kind of named type with matching name - and, for fixed,
\* the same size ("both schemas are fixed whose sizes and (unqualified) names match"); array/array; map/map
SameType(w, r) ==
  IF w.k \in PrimKinds THEN r.k = w.k
  ELSE IF w.k = "fixed" THEN r.k = "fixed" /\ NameMatch(w, r) /\ w.size = r.size
  ELSE IF IsNamedKind(w.k) THEN r.k = w.k /\ NameMatch(w, r)
  ELSE r.k = w.k

\* reader union: the first branch of the same type as the writer's, otherwise the first reachable by promotion; 0 if none
SelectBranch(w, rbrs, rn) ==
  LET same == { i \in 1..Len(rbrs) : SameType(w, Deref(rbrs[i], rn)) }
      prom == { i \in 1..Len(rbrs) : Promotable(w.k, Deref(rbrs[i], rn).k) }
      minOf(S) == CHOOSE x \in S : \A y \in S : x <= y
  IN IF same # {} THEN minOf(same) ELSE IF prom # {} THEN minOf(prom) ELSE 0

\* could data of writer type w ever resolve against r, looking one level deep (used only for collections with no datum at hand)
RECURSIVE Shallow(_, _, _, _)
Shallow(w0, r0, wn, rn) ==
  LET w == Deref(w0, wn)
      r == Deref(r0, rn)
  IN IF w.k = "union" \/ r.k = "union" THEN TRUE
     ELSE IF w.k \in PrimKinds THEN r.k = w.k \/ Promotable(w.k, r.k)
     ELSE IF w.k = "array" THEN r.k = "array" /\ Shallow(w.items, r.items, wn, rn)
     ELSE IF w.k = "map" THEN r.k = "map" /\ Shallow(w.values, r.values, wn, rn)
     ELSE IF w.k = "fixed" THEN r.k = "fixed" /\ NameMatch(w, r) /\ w.size = r.size
     ELSE r.k = w.k /\ NameMatch(w, r)

\* ---- reader defaults ------------------------------------------------------------------------------
\* the value a reader-only field takes from its JSON default: [st |-> "ok", v] | unspec
RECURSIVE DefaultOf(_, _, _)
DefaultOf(t0, d, rn) ==
  LET t == Deref(t0, rn)
      ok(v) == [st |-> "ok", v |-> v]
  IN CASE t.k = "null" /\ d.j = "z" -> ok(VNone)
       [] t.k = "boolean" /\ d.j = "b" -> ok(VBool(d.b))
       [] t.k \in {"int", "long"} /\ d.j = "i" /\ LtOf(t) = "" -> ok([p |-> "int", neg |-> d.neg, mag |-> d.mag])
       [] t.k \in {"float", "double"} /\ d.j = "f" -> ok([p |-> "float", sgn |-> d.sgn, exp |-> d.exp, man |-> d.man])
       [] t.k = "string" /\ d.j = "s" /\ LtOf(t) = "" -> ok(VStr(d.cp))
       [] t.k = "enum" /\ d.j = "s" -> ok(VStr(d.cp))
       [] t.k = "array" /\ d.j = "a" ->
            LET rs == MapSeq(LAMBDA x : DefaultOf(t.items, x, rn), d.it) IN
            IF \A i \in 1..Len(rs) : rs[i].st = "ok" THEN ok(VList(MapSeq(LAMBDA x : x.v, rs))) ELSE RUnspec
       [] t.k = "map" /\ d.j = "o" ->
            LET rs == MapSeq(LAMBDA x : DefaultOf(t.values, x, rn), d.vs) IN
            IF \A i \in 1..Len(rs) : rs[i].st = "ok" THEN ok(VDict(MapSeq(VStr, d.ks), MapSeq(LAMBDA x : x.v, rs))) ELSE RUnspec
       [] t.k = "union" /\ Len(t.br) > 0 -> DefaultOf(t.br[1], d, rn)
       [] OTHER -> RUnspec      \* bytes, fixed, record-typed defaults, an integer offered to float/double: Python representation not pinned

\* ---- promotion of a decoded value ---------------------------------------------------------------------
Promote(v, wk, rk) ==
  IF wk \in {"int", "long"} /\ rk \in {"float", "double"} THEN
     LET d == IntToDouble(IOf(v)) IN IF d.ok THEN [st |-> "ok", v |-> VFloat(d.f)] ELSE RUnspec
  ELSE IF wk = "string" /\ rk = "bytes" THEN [st |-> "ok", v |-> VBytes(Utf8Enc(v.cp))]
  ELSE IF wk = "bytes" /\ rk = "string" THEN
     LET u == Utf8Dec(v.by) IN IF u.ok THEN [st |-> "ok", v |-> VStr(u.cps)] ELSE RUnspec
  ELSE [st |-> "ok", v |-> v]

\* ---- resolution ------------------------------------------------------------------------------------------
RECURSIVE Res(_, _, _, _, _, _)

RECURSIVE ResItems(_, _, _, _, _, _, _, _)
ResItems(w, r, n, B, p, wn, rn, acc) ==
  IF n = 0 THEN [st |-> "ok", v |-> acc, p |-> p]
  ELSE LET x == Res(w, r, B, p, wn, rn) IN
       IF x.st # "ok" THEN x ELSE ResItems(w, r, n - 1, B, x.p, wn, rn, Append(acc, x.v))

RECURSIVE ResEntries(_, _, _, _, _, _, _, _, _)
ResEntries(w, r, n, B, p, wn, rn, ks, vs) ==
  IF n = 0 THEN [st |-> "ok", ks |-> ks, vs |-> vs, p |-> p]
  ELSE LET k == DecStr(B, p) IN
       IF k.st # "ok" THEN k
       ELSE LET u == Utf8Dec(k.v) IN
            IF ~u.ok THEN RUnspec
            ELSE LET x == Res(w, r, B, k.p, wn, rn) IN
                 IF x.st # "ok" THEN x ELSE ResEntries(w, r, n - 1, B, x.p, wn, rn, Append(ks, VStr(u.cps)), Append(vs, x.v))

RECURSIVE ResBlocks(_, _, _, _, _, _, _, _, _)
ResBlocks(w, r, isMap, B, p, wn, rn, ks, vs) ==
  LET c == ReadVar(B, p) IN
  IF ~c.ok THEN [st |-> "eof"]
  ELSE IF ~NIsSmall(c.x.mag) THEN RUnspec
  ELSE IF c.x.mag = <<>> THEN
       \* nothing (more) to resolve; with no datum at all, types that could never resolve leave the outcome open
       IF vs = <<>> /\ ~Shallow(w, r, wn, rn) THEN RUnspec
       ELSE [st |-> "ok", v |-> IF isMap THEN VDict(ks, vs) ELSE VList(vs), p |-> c.p]
  ELSE LET n == NToNat(c.x.mag)
           sz == ReadVar(B, c.p)
       IN IF c.x.neg /\ ~sz.ok THEN [st |-> "eof"]
          ELSE LET start == IF c.x.neg THEN sz.p ELSE c.p IN
               IF isMap THEN LET x == ResEntries(w, r, n, B, start, wn, rn, ks, vs) IN
                             IF x.st # "ok" THEN x ELSE ResBlocks(w, r, TRUE, B, x.p, wn, rn, x.ks, x.vs)
               ELSE LET x == ResItems(w, r, n, B, start, wn, rn, vs) IN
                    IF x.st # "ok" THEN x ELSE ResBlocks(w, r, FALSE, B, x.p, wn, rn, <<>>, x.v)

\* reader field for writer field wf: same name, or the writer's name among the reader field's aliases; 0 if none
ReaderFieldFor(wf, rfs) ==
  LET byName == { i \in 1..Len(rfs) : rfs[i].name = wf.name }
      byAlias == { i \in 1..Len(rfs) : InSeq(rfs[i].aliases, wf.name) }
      minOf(S) == CHOOSE x \in S : \A y \in S : x <= y
  IN IF byName # {} THEN minOf(byName) ELSE IF byAlias # {} THEN minOf(byAlias) ELSE 0

RECURSIVE ResFields(_, _, _, _, _, _, _, _, _)
ResFields(wfs, i, rfs, B, p, wn, rn, ks, vs) ==
  IF i > Len(wfs) THEN [st |-> "ok", ks |-> ks, vs |-> vs, p |-> p]
  ELSE LET j == ReaderFieldFor(wfs[i], rfs) IN
       IF j = 0 THEN LET s == Dec(wfs[i].type, B, p, wn) IN          \* writer-only field: skipped
                     IF s.st # "ok" THEN s ELSE ResFields(wfs, i + 1, rfs, B, s.p, wn, rn, ks, vs)
       ELSE LET x == Res(wfs[i].type, rfs[j].type, B, p, wn, rn) IN
            IF x.st # "ok" THEN x
            ELSE ResFields(wfs, i + 1, rfs, B, x.p, wn, rn, Append(ks, VStr(rfs[j].name)), Append(vs, x.v))

\* reader-only fields: defaults, else a resolution error
RECURSIVE FillDefaults(_, _, _, _, _)
FillDefaults(rfs, i, rn, ks, vs) ==
  IF i > Len(rfs) THEN [st |-> "ok", ks |-> ks, vs |-> vs]
  ELSE IF InSeq(ks, VStr(rfs[i].name)) THEN FillDefaults(rfs, i + 1, rn, ks, vs)
  ELSE IF ~rfs[i].hasdef THEN RRaise
  ELSE LET d == DefaultOf(rfs[i].type, rfs[i].def, rn) IN
       IF d.st # "ok" THEN RUnspec ELSE FillDefaults(rfs, i + 1, rn, Append(ks, VStr(rfs[i].name)), Append(vs, d.v))

Res(w0, r0, B, p, wn, rn) ==
  LET w == Deref(w0, wn)
      r == Deref(r0, rn)
  IN
  IF w.k = "union" THEN
     LET ix == ReadVar(B, p) IN
     IF ~ix.ok THEN [st |-> "eof"]
     ELSE IF ix.x.neg \/ ~NIsSmall(ix.x.mag) \/ NToNat(ix.x.mag) >= Len(w.br) THEN [st |-> "index"]
     ELSE LET wb == w.br[NToNat(ix.x.mag) + 1] IN
          IF r.k = "union" THEN
             LET s == SelectBranch(Deref(wb, wn), r.br, rn) IN
             IF s = 0 THEN RRaise ELSE Res(wb, r.br[s], B, ix.p, wn, rn)
          ELSE Res(wb, r, B, ix.p, wn, rn)
  ELSE IF r.k = "union" THEN
     LET s == SelectBranch(w, r.br, rn) IN
     IF s = 0 THEN RRaise ELSE Res(w, r.br[s], B, p, wn, rn)
  ELSE IF w.k \in PrimKinds THEN
     IF r.k = w.k \/ Promotable(w.k, r.k) THEN
        LET d == Dec(w, B, p, wn) IN
        IF d.st # "ok" THEN d
        ELSE LET pv == Promote(d.v, w.k, r.k) IN
             IF pv.st # "ok" THEN pv ELSE [st |-> "ok", v |-> pv.v, p |-> d.p]
     ELSE RRaise
  ELSE IF w.k = "array" THEN
     IF r.k # "array" THEN RRaise ELSE ResBlocks(w.items, r.items, FALSE, B, p, wn, rn, <<>>, <<>>)
  ELSE IF w.k = "map" THEN
     IF r.k # "map" THEN RRaise ELSE ResBlocks(w.values, r.values, TRUE, B, p, wn, rn, <<>>, <<>>)
  ELSE IF w.k = "fixed" THEN
     IF r.k # "fixed" \/ ~NameMatch(w, r) \/ w.size # r.size THEN RRaise ELSE Dec(w, B, p, wn)
  ELSE IF w.k = "enum" THEN
     IF r.k # "enum" \/ ~NameMatch(w, r) THEN RRaise
     ELSE LET d == Dec(w, B, p, wn) IN
          IF d.st # "ok" THEN d
          ELSE IF InSeq(r.syms, d.v.cp) THEN d
          ELSE IF r.hasdef THEN [st |-> "ok", v |-> VStr(r.def), p |-> d.p]
          ELSE RRaise
  ELSE \* record
     IF r.k # "record" \/ ~NameMatch(w, r) THEN RRaise
     ELSE LET x == ResFields(w.fields, 1, r.fields, B, p, wn, rn, <<>>, <<>>) IN
          IF x.st # "ok" THEN x
          ELSE LET f == FillDefaults(r.fields, 1, rn, x.ks, x.vs) IN
               IF f.st # "ok" THEN f ELSE [st |-> "ok", v |-> VDict(f.ks, f.vs), p |-> x.p]

Resolve(w, r, B, wn, rn) == Res(w, r, B, 1, wn, rn)
=============================================================================
