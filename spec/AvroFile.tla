------------------------------ MODULE AvroFile ------------------------------
(* The object container file layout (C04, C05, C06), as an independent       *)
(* parser of byte strings:                                                   *)
(*   magic 'Obj' 1 | metadata map<bytes> (any chunking) | 16-byte sync |     *)
(*   blocks: varint count, varint size, size bytes of payload, sync          *)
(* Compression is uninterpreted: Inflate looks the payload up in a finite    *)
(* table (compressed bytes -> plain bytes) supplied with the case; the       *)
(* harness computes that table with the standard library, never fastavro.    *)
EXTENDS Naturals, Integers, Sequences, SequencesExt, FiniteSets, TLC, Text, BigNat, Utf8, AvroSchema, AvroValue, AvroBinary

Magic == <<79, 98, 106, 1>>
SyncSize == 16
MetaSchema == [k |-> "map", values |-> [k |-> "bytes", lt |-> NoLt]]
K_avro_schema == Cps("avro.schema")
K_avro_codec == Cps("avro.codec")
N_nullcodec == Cps("null")

FBad(why) == [ok |-> FALSE, why |-> why]

\* [ok, meta (dict str -> bytes), sync, hend (1-based position of the first block)]
ParseHeader(F) ==
  IF Len(F) < 4 \/ SubSeq(F, 1, 4) # Magic THEN FBad("magic")
  ELSE LET m == Dec(MetaSchema, F, 5, EmptyFn) IN
       IF m.st # "ok" THEN FBad("meta")
       ELSE IF m.p + SyncSize - 1 > Len(F) THEN FBad("sync")
       ELSE [ok |-> TRUE, meta |-> m.v, sync |-> SubSeq(F, m.p, m.p + SyncSize - 1), hend |-> m.p + SyncSize]

\* raw blocks from position p: [ok, blocks <<[off (0-based offset of the count), size (bytes incl. sync), count, payload]>>]
\* stops with why = "cut" when the file ends inside a block and "sync" when a marker differs
RECURSIVE ParseBlocks(_, _, _, _)
ParseBlocks(F, p, sync, acc) ==
  IF p = Len(F) + 1 THEN [ok |-> TRUE, blocks |-> acc]
  ELSE LET c == ReadVar(F, p) IN
       IF ~c.ok THEN [ok |-> FALSE, why |-> "cut", blocks |-> acc]
       ELSE IF c.x.neg \/ ~NIsSmall(c.x.mag) THEN [ok |-> FALSE, why |-> "count", blocks |-> acc]
       ELSE LET s == ReadVar(F, c.p) IN
            IF ~s.ok THEN [ok |-> FALSE, why |-> "cut", blocks |-> acc]
            ELSE IF s.x.neg \/ ~NIsSmall(s.x.mag) THEN [ok |-> FALSE, why |-> "size", blocks |-> acc]
            ELSE LET n == NToNat(s.x.mag)
                     q == s.p + n                      \* position of the sync marker
                 IN IF q + SyncSize - 1 > Len(F) THEN [ok |-> FALSE, why |-> "cut", blocks |-> acc]
                    ELSE IF SubSeq(F, q, q + SyncSize - 1) # sync THEN [ok |-> FALSE, why |-> "sync", blocks |-> acc]
                    ELSE ParseBlocks(F, q + SyncSize, sync,
                                     Append(acc, [off |-> p - 1, size |-> q + SyncSize - p, count |-> NToNat(c.x.mag),
                                                  payload |-> SubSeq(F, s.p, q - 1)]))

\* table: sequence of [c |-> compressed bytes, d |-> plain bytes, ok |-> the standard-library decompressor of the header's codec accepted c]
Inflate(codec, payload, table) ==
  IF codec = N_nullcodec THEN [ok |-> TRUE, d |-> payload]
  ELSE LET hits == { i \in 1..Len(table) : table[i].c = payload } IN
       IF hits = {} THEN [ok |-> FALSE, why |-> "H.inflate"]
       ELSE LET e == table[CHOOSE i \in hits : TRUE] IN
            IF e.ok THEN [ok |-> TRUE, d |-> e.d] ELSE [ok |-> FALSE, why |-> "codec"]

MetaText(meta, key) == Utf8Dec(ValAt(meta, key).by)

\* hs = [text |-> bytes of the avro.schema value, tree |-> that JSON text parsed by the standard json module]
\* [ok, t, names, codec, meta, sync, hend, blocks <<[off, size, count, recs]>>, records]
ParseFile(F, hs, table) ==
  LET h == ParseHeader(F) IN
  IF ~h.ok THEN h
  ELSE IF ~HasKey(h.meta, K_avro_schema) THEN FBad("noschema")
  ELSE IF ValAt(h.meta, K_avro_schema).by # hs.text THEN FBad("H.schematext")
  ELSE LET P == Parse(hs.tree)
           codec == IF HasKey(h.meta, K_avro_codec) THEN MetaText(h.meta, K_avro_codec).cps ELSE N_nullcodec
           bl == ParseBlocks(F, h.hend, h.sync, <<>>)
       IN IF ~P.ok THEN FBad("schema")
          ELSE IF ~bl.ok THEN FBad(bl.why)
          ELSE LET dec == MapSeq(LAMBDA b :
                              LET inf == Inflate(codec, b.payload, table) IN
                              IF ~inf.ok THEN [ok |-> FALSE, why |-> inf.why]
                              ELSE LET r == DecItems(P.t, b.count, inf.d, 1, P.st.names, <<>>) IN
                                   IF r.st # "ok" \/ r.p # Len(inf.d) + 1 THEN [ok |-> FALSE, why |-> "payload"]
                                   ELSE [ok |-> TRUE, off |-> b.off, size |-> b.size, count |-> b.count, recs |-> r.v],
                            bl.blocks)
               IN IF \E i \in 1..Len(dec) : ~dec[i].ok
                  THEN FBad(dec[CHOOSE i \in 1..Len(dec) : ~dec[i].ok].why)
                  ELSE [ok |-> TRUE, t |-> P.t, names |-> P.st.names, codec |-> codec, meta |-> h.meta, sync |-> h.sync,
                        hend |-> h.hend, blocks |-> dec,
                        records |-> FoldLeft(LAMBDA acc, b : acc \o b.recs, <<>>, dec)]

\* the blocks tile the file: contiguous from the end of the header to the end of the file
Tiles(blocks, hend, flen) ==
  /\ (Len(blocks) = 0 => hend - 1 = flen)
  /\ (Len(blocks) > 0 => blocks[1].off = hend - 1 /\ blocks[Len(blocks)].off + blocks[Len(blocks)].size = flen)
  /\ \A i \in 1..(Len(blocks) - 1) : blocks[i].off + blocks[i].size = blocks[i + 1].off

\* block boundaries of a layout-valid file (0-based cut offsets at which the prefix is itself a valid file)
Boundaries(pf) == { pf.hend - 1 } \cup { pf.blocks[i].off + pf.blocks[i].size : i \in 1..Len(pf.blocks) }
=============================================================================
