------------------------------- MODULE Threads -------------------------------
(* Two operations running in different threads on distinct streams (C18).     *)
(* Each operation is abstracted to the sequence of its steps at library-line  *)
(* granularity; the only steps that matter are accesses to shared cells       *)
(* (module-level state, shared argument objects).  A footprint recorded from  *)
(* the real code gives, per operation, the steps that WRITE a shared cell;    *)
(* reads are not observable, so every later step of the writer is taken to    *)
(* possibly read the cell (sound over-approximation).                         *)
(*                                                                            *)
(* State: pc[t] in 0..N[t]; mem[c] = last writer of cell c (or "init").       *)
(* A thread's result is suspect when, between one of its writes to c and its  *)
(* end, the other thread wrote c (lost update / stale read).                  *)
EXTENDS Naturals, Sequences, FiniteSets, TLC

\* W[t] : set of <<step index, cell>> ; N[t] : number of steps
Conflicts(Wx, Wy) == { c \in { w[2] : w \in Wx } : \E v \in Wy : v[2] = c }

\* single pre-emption schedules: X runs steps 0..k-1, Y runs completely, X resumes.
\* The schedule is interesting when X has written a conflicting cell before k and still has steps left (it may read it back),
\* or Y writes a cell X writes later (X's later write then races with Y's reads - irrelevant once Y is done) .
Interesting(k, Nx, Wx, Wy) ==
  /\ k <= Nx
  /\ \E w \in Wx : w[1] < k /\ w[2] \in Conflicts(Wx, Wy)

\* the pre-emption points right after each conflicting write of X (the smallest interesting k per write) and the last point
SuggestedPoints(Nx, Wx, Wy) ==
  LET C == Conflicts(Wx, Wy) IN
  { w[1] + 1 : w \in { v \in Wx : v[2] \in C } } \cup { w[1] + 2 : w \in { v \in Wx : v[2] \in C /\ v[1] + 2 <= Nx } }

\* nested schedules: X runs to k1, Y runs to k2, X completes, Y completes (both inside the library at once, finishing in starting
\* order).  Interesting when each has written a shared cell the other also writes before being suspended: the cell then holds the
\* other's update while the first still relies on its own (a shared stack / scratch buffer).  <<k1, k2>> right after such writes.
SuggestedNested(Wx, Wy) ==
  LET C == Conflicts(Wx, Wy) IN
  { << w[1] + 1, v[1] + 1 >> : w \in { a \in Wx : a[2] \in C }, v \in { b \in Wy : b[2] \in C } }
=============================================================================
