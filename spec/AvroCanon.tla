----------------------------- MODULE AvroCanon -----------------------------
(* Parsing Canonical Form (C13): the specification's transformation on the   *)
(* parsed tree (CanonTree) and its rendering as text (CanonText).            *)
(* [PRIMITIVES] simple form, [FULLNAMES] full names, no namespace,           *)
(* [STRIP] keep only type name fields symbols items values size,             *)
(* [ORDER] name type fields symbols items values size, [INTEGERS] plain      *)
(* decimal, [WHITESPACE] none.                                               *)
EXTENDS Naturals, Sequences, SequencesExt, Text, AvroSchema

RECURSIVE CanonTree(_)
CanonTree(t) ==
  CASE t.k \in PrimKinds -> [k |-> t.k, lt |-> NoLt]
    [] t.k = "ref" -> [k |-> "ref", name |-> t.name]
    [] t.k = "record" -> [k |-> "record", name |-> t.name,
                          fields |-> MapSeq(LAMBDA f : [name |-> f.name, type |-> CanonTree(f.type)], t.fields)]
    [] t.k = "enum" -> [k |-> "enum", name |-> t.name, syms |-> t.syms]
    [] t.k = "fixed" -> [k |-> "fixed", name |-> t.name, size |-> t.size, lt |-> NoLt]
    [] t.k = "array" -> [k |-> "array", items |-> CanonTree(t.items)]
    [] t.k = "map" -> [k |-> "map", values |-> CanonTree(t.values)]
    [] t.k = "union" -> [k |-> "union", br |-> MapSeq(CanonTree, t.br)]

MapNames(names) == [n \in DOMAIN names |-> CanonTree(names[n])]

Q == <<34>>            \* the double quote
Quoted(cp) == Q \o cp \o Q
\* join texts with commas
Commas(ts) == FoldLeft(LAMBDA acc, x : IF acc = <<>> THEN x ELSE acc \o <<44>> \o x, <<>>, ts)
CommasNE(ts) == IF Len(ts) = 0 THEN <<>> ELSE FoldLeft(LAMBDA acc, k : acc \o <<44>> \o ts[k], ts[1], [k \in 1..(Len(ts) - 1) |-> k + 1])

T_name == Cps("{\"name\":")        T_type_rec == Cps(",\"type\":\"record\",\"fields\":[")
T_type_enum == Cps(",\"type\":\"enum\",\"symbols\":[")   T_type_fixed == Cps(",\"type\":\"fixed\",\"size\":")
T_fname == Cps("{\"name\":")       T_ftype == Cps(",\"type\":")
T_array == Cps("{\"type\":\"array\",\"items\":")   T_map == Cps("{\"type\":\"map\",\"values\":")

RECURSIVE CanonText(_)
CanonText(t) ==
  CASE t.k \in PrimKinds -> Quoted(KindName(t.k))
    [] t.k = "ref" -> Quoted(t.name)
    [] t.k = "record" ->
         T_name \o Quoted(t.name) \o T_type_rec
         \o CommasNE(MapSeq(LAMBDA f : T_fname \o Quoted(f.name) \o T_ftype \o CanonText(f.type) \o <<125>>, t.fields))
         \o <<93, 125>>
    [] t.k = "enum" -> T_name \o Quoted(t.name) \o T_type_enum \o CommasNE(MapSeq(Quoted, t.syms)) \o <<93, 125>>
    [] t.k = "fixed" -> T_name \o Quoted(t.name) \o T_type_fixed \o NatDigits(t.size) \o <<125>>
    [] t.k = "array" -> T_array \o CanonText(t.items) \o <<125>>
    [] t.k = "map" -> T_map \o CanonText(t.values) \o <<125>>
    [] t.k = "union" -> <<91>> \o CommasNE(MapSeq(CanonText, t.br)) \o <<93>>
=============================================================================
