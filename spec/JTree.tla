------------------------------- MODULE JTree -------------------------------
(* Tagged JSON trees (the projection of json.loads results / raw schemas):  *)
(*   object  [j |-> "o", ks |-> <<text>>, vs |-> <<tree>>]   (key order kept) *)
(*   array   [j |-> "a", it |-> <<tree>>]                                     *)
(*   string  [j |-> "s", cp |-> text]        text = code-point sequence       *)
(*   integer [j |-> "i", neg, mag]           BigNat integer                   *)
(*   float   [j |-> "f", sgn, exp, man]      IEEE binary64 fields             *)
(*   bool    [j |-> "b", b |-> BOOLEAN]      null [j |-> "z"]                 *)
EXTENDS Naturals, Sequences, Text

JNull == [j |-> "z"]
JStr(cp) == [j |-> "s", cp |-> cp]
JIsObj(x) == x.j = "o"
JIsArr(x) == x.j = "a"
JIsStr(x) == x.j = "s"
JIsInt(x) == x.j = "i"
JIsNum(x) == x.j = "i" \/ x.j = "f"
JIsBool(x) == x.j = "b"
JIsNull(x) == x.j = "z"

JHas(o, key) == InSeq(o.ks, key)
\* value of the LAST occurrence of key (json.loads keeps the last duplicate); caller checks JHas
RECURSIVE JGetFrom(_, _, _)
JGetFrom(o, key, i) == IF i = 0 THEN JNull ELSE IF o.ks[i] = key THEN o.vs[i] ELSE JGetFrom(o, key, i - 1)
JGet(o, key) == JGetFrom(o, key, Len(o.ks))
JHasStr(o, key) == JHas(o, key) /\ JIsStr(JGet(o, key))
=============================================================================
