-------------------------------- MODULE Rabin --------------------------------
(* CRC-64-AVRO (C14): the 64-bit Rabin fingerprint the Avro specification      *)
(* defines, over 64-bit words written as 8 little-endian bytes.                *)
(*   fp := EMPTY;  for each byte b:  fp := (fp >>> 8) XOR FP_TABLE[(fp XOR b) & 0xff] *)
(*   FP_TABLE[i]: fp := i; 8 times: fp := (fp >>> 1) XOR (EMPTY AND -(fp AND 1))       *)
(* Both the bit-serial definition and the table-driven form are given; their   *)
(* agreement is checked by TLC (mc/MC_Rabin).                                  *)
EXTENDS Naturals, Sequences, SequencesExt, Text

\* 0xC15D213AA4D7A795, least significant byte first
EMPTY64 == << 149, 167, 215, 164, 58, 33, 93, 193 >>
ZERO64 == << 0, 0, 0, 0, 0, 0, 0, 0 >>

\* XOR of two bytes, bit by bit (no tables: TLC does not reliably cache table-valued constant definitions)
Bx(a, b, w) == ((((a \div w) % 2) + ((b \div w) % 2)) % 2)
XorByte(a, b) == Bx(a, b, 1) + (2 * Bx(a, b, 2)) + (4 * Bx(a, b, 4)) + (8 * Bx(a, b, 8))
               + (16 * Bx(a, b, 16)) + (32 * Bx(a, b, 32)) + (64 * Bx(a, b, 64)) + (128 * Bx(a, b, 128))
Xor64(x, y) == << XorByte(x[1], y[1]), XorByte(x[2], y[2]), XorByte(x[3], y[3]), XorByte(x[4], y[4]),
                  XorByte(x[5], y[5]), XorByte(x[6], y[6]), XorByte(x[7], y[7]), XorByte(x[8], y[8]) >>
\* logical shift right by one bit / by one byte
Shr1(x) == << (x[1] \div 2) + 128 * (x[2] % 2), (x[2] \div 2) + 128 * (x[3] % 2), (x[3] \div 2) + 128 * (x[4] % 2),
              (x[4] \div 2) + 128 * (x[5] % 2), (x[5] \div 2) + 128 * (x[6] % 2), (x[6] \div 2) + 128 * (x[7] % 2),
              (x[7] \div 2) + 128 * (x[8] % 2), x[8] \div 2 >>
Shr8(x) == << x[2], x[3], x[4], x[5], x[6], x[7], x[8], 0 >>
Odd64(x) == x[1] % 2 = 1

\* one bit-serial step
Step1(x) == IF Odd64(x) THEN Xor64(Shr1(x), EMPTY64) ELSE Shr1(x)
Step8(x) == Step1(Step1(Step1(Step1(Step1(Step1(Step1(Step1(x))))))))

\* the specification's table
TableEntry(i) == Step8(<< i, 0, 0, 0, 0, 0, 0, 0 >>)
FPTable == Mat([i \in 1..256 |-> TableEntry(i - 1)])

\* table-driven form; the table is bound once per fingerprint (LET values are computed once)
FPStepT(T, fp, b) == Xor64(Shr8(fp), T[XorByte(fp[1], b) + 1])
FPStep(fp, b) == Xor64(Shr8(fp), TableEntry(XorByte(fp[1], b)))
FP(bytes) == LET T == FPTable IN FoldLeft(LAMBDA fp, b : FPStepT(T, fp, b), EMPTY64, bytes)

\* bit-serial form: xor the byte into the low byte, then eight single-bit steps
FPStepSerial(fp, b) == Step8(<< XorByte(fp[1], b), fp[2], fp[3], fp[4], fp[5], fp[6], fp[7], fp[8] >>)
FPSerial(bytes) == FoldLeft(FPStepSerial, EMPTY64, bytes)

\* sixteen lower-case hex digits, bytes in little-endian order
HexDigit(n) == IF n < 10 THEN 48 + n ELSE 87 + n
HexByte(b) == << HexDigit(b \div 16), HexDigit(b % 16) >>
Hex64LE(x) == HexByte(x[1]) \o HexByte(x[2]) \o HexByte(x[3]) \o HexByte(x[4])
           \o HexByte(x[5]) \o HexByte(x[6]) \o HexByte(x[7]) \o HexByte(x[8])
=============================================================================
