#!/bin/bash
# Offline setup: nothing to build (pure Python + TLA+); verifies the toolchain and parses every module.
set -e
cd "$(dirname "$0")"
export PYTHONDONTWRITEBYTECODE=1
mkdir -p .work/jtmp evidence replays
/venv/bin/python -m harness.proj
CP=/opt/veriftools/tla/tla2tools.jar:/opt/veriftools/tla/CommunityModules-deps.jar
fail=0
for f in trace/Cases.tla trace/Gen*.tla mc/*.tla; do
  [ -e "$f" ] || continue
  if ! java -Djava.io.tmpdir=$PWD/.work/jtmp -DTLA-Library=$PWD/spec:$PWD/trace:$PWD/mc -cp $CP tla2sany.SANY "$f" > .work/sany.log 2>&1 || grep -q -E "^\*\*\* Errors|Fatal|Could not" .work/sany.log; then
    echo "SANY failed on $f"; tail -20 .work/sany.log; fail=1
  fi
done
rm -rf .work/jtmp
[ $fail = 0 ] && echo "setup ok"
exit $fail
